//! Engine C: monitors for `truc_runtime::convert` (C08, C09, C10).
//!
//! Oracles: a `filter_map` reference model, the converter call log, the births/deaths ledger
//! (serials only), per-type drop counters for zero-size elements, and a watch on the vector's
//! buffer in the global allocator (counts deallocations / reallocations of that very block).

use std::alloc::{GlobalAlloc, Layout, System};
use std::collections::BTreeMap;
use std::marker::PhantomData;
use std::panic::{catch_unwind, AssertUnwindSafe};
use std::sync::atomic::{AtomicU64, AtomicUsize, Ordering};
use std::sync::Mutex;

use truc_runtime::convert::{
    convert_vec_in_place, try_convert_vec_in_place, VecElementConversionResult,
};
use vtypes::ledger::{self, LedgerEvent};
use vtypes::Rng;

// ---------------------------------------------------------------------------------------------
// allocator watch

struct WatchAlloc;

static WATCH_PTR: AtomicUsize = AtomicUsize::new(0);
static WATCH_DEALLOCS: AtomicUsize = AtomicUsize::new(0);
static WATCH_REALLOCS: AtomicUsize = AtomicUsize::new(0);
static WATCH_DEALLOC_SIZE: AtomicUsize = AtomicUsize::new(0);
static WATCH_DEALLOC_ALIGN: AtomicUsize = AtomicUsize::new(0);
static WATCH_REUSED: AtomicUsize = AtomicUsize::new(0);
static ALLOC_EVENTS: AtomicU64 = AtomicU64::new(0);

unsafe impl GlobalAlloc for WatchAlloc {
    unsafe fn alloc(&self, layout: Layout) -> *mut u8 {
        let p = System.alloc(layout);
        ALLOC_EVENTS.fetch_add(1, Ordering::Relaxed);
        let w = WATCH_PTR.load(Ordering::Relaxed);
        if w != 0 && p as usize == w && WATCH_DEALLOCS.load(Ordering::Relaxed) > 0 {
            // the block was released and the address handed out again: stop watching
            WATCH_REUSED.fetch_add(1, Ordering::Relaxed);
            WATCH_PTR.store(0, Ordering::Relaxed);
        }
        p
    }
    unsafe fn dealloc(&self, ptr: *mut u8, layout: Layout) {
        ALLOC_EVENTS.fetch_add(1, Ordering::Relaxed);
        if ptr as usize == WATCH_PTR.load(Ordering::Relaxed) && ptr as usize != 0 {
            WATCH_DEALLOCS.fetch_add(1, Ordering::Relaxed);
            WATCH_DEALLOC_SIZE.store(layout.size(), Ordering::Relaxed);
            WATCH_DEALLOC_ALIGN.store(layout.align(), Ordering::Relaxed);
        }
        System.dealloc(ptr, layout)
    }
    unsafe fn realloc(&self, ptr: *mut u8, layout: Layout, new_size: usize) -> *mut u8 {
        ALLOC_EVENTS.fetch_add(1, Ordering::Relaxed);
        if ptr as usize == WATCH_PTR.load(Ordering::Relaxed) && ptr as usize != 0 {
            WATCH_REALLOCS.fetch_add(1, Ordering::Relaxed);
        }
        System.realloc(ptr, layout, new_size)
    }
}

#[global_allocator]
static GLOBAL: WatchAlloc = WatchAlloc;

fn watch(ptr: usize) {
    WATCH_DEALLOCS.store(0, Ordering::Relaxed);
    WATCH_REALLOCS.store(0, Ordering::Relaxed);
    WATCH_REUSED.store(0, Ordering::Relaxed);
    WATCH_DEALLOC_SIZE.store(0, Ordering::Relaxed);
    WATCH_DEALLOC_ALIGN.store(0, Ordering::Relaxed);
    WATCH_PTR.store(ptr, Ordering::Relaxed);
}

fn unwatch() -> (usize, usize, usize, usize) {
    WATCH_PTR.store(0, Ordering::Relaxed);
    (
        WATCH_DEALLOCS.load(Ordering::Relaxed),
        WATCH_REALLOCS.load(Ordering::Relaxed),
        WATCH_DEALLOC_SIZE.load(Ordering::Relaxed),
        WATCH_DEALLOC_ALIGN.load(Ordering::Relaxed),
    )
}

fn watch_counts() -> (usize, usize) {
    (
        WATCH_DEALLOCS.load(Ordering::Relaxed),
        WATCH_REALLOCS.load(Ordering::Relaxed),
    )
}

// ---------------------------------------------------------------------------------------------
// element types

/// Payload of an instrumented element: fixes size and alignment, carries the serial if it can.
pub trait Payload: Copy + 'static {
    const NAME: &'static str;
    fn from_serial(serial: u64) -> Self;
    /// `None` for zero-size payloads.
    fn serial(&self) -> Option<u64>;
}

macro_rules! payload_zst {
    ($t:ty, $name:expr, $v:expr) => {
        impl Payload for $t {
            const NAME: &'static str = $name;
            fn from_serial(_serial: u64) -> Self {
                $v
            }
            fn serial(&self) -> Option<u64> {
                None
            }
        }
    };
}
payload_zst!((), "0/1", ());
payload_zst!([u64; 0], "0/8", []);

impl Payload for [u8; 4] {
    const NAME: &'static str = "4/1";
    fn from_serial(serial: u64) -> Self {
        (serial as u32).to_le_bytes()
    }
    fn serial(&self) -> Option<u64> {
        Some(u32::from_le_bytes(*self) as u64)
    }
}
impl Payload for u32 {
    const NAME: &'static str = "4/4";
    fn from_serial(serial: u64) -> Self {
        serial as u32
    }
    fn serial(&self) -> Option<u64> {
        Some(*self as u64)
    }
}
impl Payload for [u8; 3] {
    const NAME: &'static str = "3/1";
    fn from_serial(serial: u64) -> Self {
        let b = (serial as u32).to_le_bytes();
        [b[0], b[1], b[2]]
    }
    fn serial(&self) -> Option<u64> {
        Some(u32::from_le_bytes([self[0], self[1], self[2], 0]) as u64)
    }
}
impl Payload for [u8; 8] {
    const NAME: &'static str = "8/1";
    fn from_serial(serial: u64) -> Self {
        serial.to_le_bytes()
    }
    fn serial(&self) -> Option<u64> {
        Some(u64::from_le_bytes(*self))
    }
}
impl Payload for [u32; 2] {
    const NAME: &'static str = "8/4";
    fn from_serial(serial: u64) -> Self {
        [serial as u32, (serial >> 32) as u32]
    }
    fn serial(&self) -> Option<u64> {
        Some(self[0] as u64 | (self[1] as u64) << 32)
    }
}
impl Payload for u64 {
    const NAME: &'static str = "8/8";
    fn from_serial(serial: u64) -> Self {
        serial
    }
    fn serial(&self) -> Option<u64> {
        Some(*self)
    }
}
impl Payload for [u64; 2] {
    const NAME: &'static str = "16/8";
    fn from_serial(serial: u64) -> Self {
        [serial, !serial]
    }
    fn serial(&self) -> Option<u64> {
        Some(self[0])
    }
}
impl Payload for vtypes::A16 {
    const NAME: &'static str = "16/16";
    fn from_serial(serial: u64) -> Self {
        vtypes::A16 {
            v: serial,
            w: !serial,
        }
    }
    fn serial(&self) -> Option<u64> {
        Some(self.v)
    }
}
impl Payload for vtypes::A32 {
    const NAME: &'static str = "32/32";
    fn from_serial(serial: u64) -> Self {
        vtypes::A32 {
            v: serial,
            w: !serial,
            x: 0,
        }
    }
    fn serial(&self) -> Option<u64> {
        Some(self.v)
    }
}
impl Payload for [u64; 32] {
    const NAME: &'static str = "256/8";
    fn from_serial(serial: u64) -> Self {
        let mut a = [0u64; 32];
        for (i, x) in a.iter_mut().enumerate() {
            *x = serial.wrapping_add(i as u64);
        }
        a
    }
    fn serial(&self) -> Option<u64> {
        Some(self[0])
    }
}

static ZST_DROPS: [AtomicU64; 4] = [
    AtomicU64::new(0),
    AtomicU64::new(0),
    AtomicU64::new(0),
    AtomicU64::new(0),
];

/// Instrumented element: layout of `P`, a destructor that reports to the ledger (or to a
/// per-tag counter for zero-size payloads). `TAG` makes distinct types of equal layout.
pub struct E<P: Payload, const TAG: usize> {
    p: P,
}

impl<P: Payload, const TAG: usize> Drop for E<P, TAG> {
    fn drop(&mut self) {
        match self.p.serial() {
            Some(s) => {
                ledger::death(s);
            }
            None => {
                ZST_DROPS[TAG].fetch_add(1, Ordering::Relaxed);
            }
        }
    }
}

/// What the monitors need from an element type.
pub trait Elem: Sized + 'static {
    const NAME: &'static str;
    /// Whether drops are observable (ledger or counter).
    const DROP_TRACKED: bool;
    /// Zero-size: identity is not observable, only counts.
    const COUNTED: bool;
    fn make(serial: u64) -> Self;
    fn serial(&self) -> u64;
    fn zst_drops() -> u64 {
        0
    }
}

impl<P: Payload, const TAG: usize> Elem for E<P, TAG> {
    const NAME: &'static str = P::NAME;
    const DROP_TRACKED: bool = true;
    const COUNTED: bool = std::mem::size_of::<P>() == 0;
    fn make(serial: u64) -> Self {
        let p = P::from_serial(serial);
        if p.serial().is_some() {
            ledger::birth(serial);
        }
        E { p }
    }
    fn serial(&self) -> u64 {
        self.p.serial().unwrap_or(0)
    }
    fn zst_drops() -> u64 {
        ZST_DROPS[TAG].load(Ordering::Relaxed)
    }
}

impl Elem for u64 {
    const NAME: &'static str = "u64";
    const DROP_TRACKED: bool = false;
    const COUNTED: bool = false;
    fn make(serial: u64) -> Self {
        serial
    }
    fn serial(&self) -> u64 {
        *self
    }
}

impl Elem for f64 {
    const NAME: &'static str = "f64";
    const DROP_TRACKED: bool = false;
    const COUNTED: bool = false;
    fn make(serial: u64) -> Self {
        serial as f64
    }
    fn serial(&self) -> u64 {
        *self as u64
    }
}

/// Heap-owning elements, so that Miri and memcheck see real leaks and double frees too.
pub struct HeapA(vtypes::Tracked);
pub struct HeapB(vtypes::Tracked);

macro_rules! elem_heap {
    ($t:ident) => {
        impl Elem for $t {
            const NAME: &'static str = stringify!($t);
            const DROP_TRACKED: bool = true;
            const COUNTED: bool = false;
            fn make(serial: u64) -> Self {
                $t(<vtypes::Tracked as vtypes::Probe>::make(serial))
            }
            fn serial(&self) -> u64 {
                // reading the payload too makes a use after free visible to Miri / memcheck
                let _ = vtypes::Probe::ident(&self.0);
                self.0.serial()
            }
        }
    };
}
elem_heap!(HeapA);
elem_heap!(HeapB);

// ---------------------------------------------------------------------------------------------
// reporting

#[derive(Default)]
struct Out {
    evaluations: u64,
    distinct: std::collections::HashSet<u64>,
    counters: BTreeMap<String, u64>,
    samples: Vec<String>,
    violations: Vec<(String, String, String)>, // kind, detail, case text
    violations_total: u64,
}

impl Out {
    fn count(&mut self, k: &str, n: u64) {
        *self.counters.entry(k.to_owned()).or_default() += n;
    }
    fn violation(&mut self, kind: &str, detail: String, case: &str) {
        self.violations_total += 1;
        let same = self.violations.iter().filter(|(k, _, _)| k == kind).count();
        if same < 4 && self.violations.len() < 60 {
            self.violations
                .push((kind.to_owned(), detail, case.to_owned()));
        }
    }
}

/// Injected panic payload.
#[derive(Debug, PartialEq, Eq)]
pub struct InjectedPanic(pub u64);

/// Injected error value.
#[derive(Debug, PartialEq, Eq)]
pub struct InjectedError(pub u64);

#[derive(Clone, Copy, Debug, PartialEq, Eq)]
enum ConvKind {
    IgnorePrev,
    ReadPrev,
    ModifyPrev,
}

#[derive(Clone, Copy, Debug, PartialEq, Eq)]
enum FailKind {
    ErrorReturn,
    PanicHoldingInput,
    PanicAfterDroppingInput,
    PanicAfterBuildingOutput,
}

const OUT_BASE: u64 = 1 << 20;
const MOD_BASE: u64 = 1 << 21;

fn ledger_problems(events: Vec<LedgerEvent>) -> Vec<String> {
    events.into_iter().map(|e| format!("{:?}", e)).collect()
}

/// One happy-path conversion (C08). `pattern[i]` = element i is converted (else abandoned).
fn case_convert<T: Elem, U: Elem>(
    pattern: &[bool],
    spare: usize,
    kind: ConvKind,
    use_try: bool,
    out: &mut Out,
) {
    let n = pattern.len();
    let case = format!(
        "convert {}->{} ({}) len={} spare={} pattern={} conv={:?} via={}",
        T::NAME,
        U::NAME,
        std::any::type_name::<T>(),
        n,
        spare,
        pattern.iter().map(|b| if *b { 'C' } else { 'a' }).collect::<String>(),
        kind,
        if use_try { "try_convert" } else { "convert" }
    );
    out.evaluations += 1;
    let _ = ledger::close_epoch();
    let t_drops0 = T::zst_drops();
    let u_drops0 = U::zst_drops();
    let mut input: Vec<T> = Vec::with_capacity(n + spare);
    for i in 0..n {
        input.push(T::make(1 + i as u64));
    }
    let in_ptr = input.as_ptr() as usize;
    let in_cap = input.capacity();
    let bytes = in_cap * std::mem::size_of::<T>();
    // reference model
    let mut model: Vec<u64> = Vec::new();
    let log: Mutex<Vec<(usize, u64, Option<u64>)>> = Mutex::new(Vec::new());
    let calls = AtomicUsize::new(0);
    // a vector without allocation has nothing to watch (counters are reset all the same)
    watch(if bytes > 0 { in_ptr } else { 0 });
    let conv = |t: T, prev: Option<&mut U>| {
        let i = calls.fetch_add(1, Ordering::Relaxed);
        let prev_seen = prev.as_ref().map(|p| p.serial());
        log.lock().unwrap().push((i, t.serial(), prev_seen));
        if kind == ConvKind::ModifyPrev {
            if let Some(p) = prev {
                *p = U::make(MOD_BASE + i as u64);
            }
        }
        drop(t);
        if i < pattern.len() && pattern[i] {
            VecElementConversionResult::Converted(U::make(OUT_BASE + i as u64))
        } else {
            VecElementConversionResult::Abandonned
        }
    };
    let result: Vec<U> = if use_try {
        match try_convert_vec_in_place::<T, U, _, InjectedError>(input, |t, p| Ok(conv(t, p))) {
            Ok(v) => v,
            Err(e) => {
                out.violation("unexpected-error", format!("{:?}", e), &case);
                return;
            }
        }
    } else {
        convert_vec_in_place::<T, U, _>(input, conv)
    };
    let (deallocs_during, reallocs_during) = watch_counts();
    // model
    for i in 0..n {
        if kind == ConvKind::ModifyPrev && !model.is_empty() {
            let last = model.len() - 1;
            model[last] = MOD_BASE + i as u64;
        }
        if pattern[i] {
            model.push(OUT_BASE + i as u64);
        }
    }
    // call log: every input once, in order, with the most recent output
    let log = log.into_inner().unwrap();
    if log.len() != n {
        out.violation(
            "converter-call-count",
            format!("{} calls for {} elements", log.len(), n),
            &case,
        );
    }
    {
        let mut last_out: Option<u64> = None;
        for (k, (i, input_serial, prev_seen)) in log.iter().enumerate() {
            if *i != k || (!T::COUNTED && *input_serial != 1 + k as u64) {
                out.violation(
                    "converter-input-order",
                    format!("call {} received input serial {} (expected {})", k, input_serial, 1 + k),
                    &case,
                );
            }
            let expect_prev = if U::COUNTED { last_out.map(|_| 0) } else { last_out };
            if *prev_seen != expect_prev {
                out.violation(
                    "converter-previous-output",
                    format!("call {} saw previous output {:?}, expected {:?}", k, prev_seen, expect_prev),
                    &case,
                );
            }
            if kind == ConvKind::ModifyPrev && last_out.is_some() {
                last_out = Some(MOD_BASE + k as u64);
            }
            if k < pattern.len() && pattern[k] {
                last_out = Some(OUT_BASE + k as u64);
            }
        }
        out.count("converter_calls_observed", log.len() as u64);
    }
    // result
    let got: Vec<u64> = result.iter().map(|u| u.serial()).collect();
    let want: Vec<u64> = if U::COUNTED {
        model.iter().map(|_| 0).collect()
    } else {
        model.clone()
    };
    if got != want {
        out.violation(
            "result-differs-from-model",
            format!("result {:?}, model {:?}", got, want),
            &case,
        );
    }
    out.count("result_elements_compared", got.len() as u64);
    if result.as_ptr() as usize != in_ptr {
        out.violation(
            "allocation-not-reused",
            format!("input buffer {:#x}, result buffer {:#x}", in_ptr, result.as_ptr() as usize),
            &case,
        );
    }
    if result.capacity() != in_cap {
        out.violation(
            "capacity-changed",
            format!("input capacity {}, result capacity {}", in_cap, result.capacity()),
            &case,
        );
    }
    if deallocs_during != 0 || reallocs_during != 0 {
        out.violation(
            "buffer-touched-by-allocator-during-call",
            format!("{} deallocations, {} reallocations of the input buffer", deallocs_during, reallocs_during),
            &case,
        );
    }
    // inputs are all gone, outputs alive
    if T::DROP_TRACKED && !T::COUNTED {
        for i in 0..n {
            if ledger::state(1 + i as u64) != Some(ledger::State::Dropped) {
                out.violation(
                    "input-not-dropped",
                    format!("input serial {} is {:?} after the call", 1 + i, ledger::state(1 + i as u64)),
                    &case,
                );
            }
        }
    }
    if U::DROP_TRACKED && !U::COUNTED {
        for s in &model {
            if ledger::state(*s) != Some(ledger::State::Live) {
                out.violation(
                    "output-not-alive",
                    format!("output serial {} is {:?} in the result", s, ledger::state(*s)),
                    &case,
                );
            }
        }
    }
    drop(result);
    let (deallocs, _reallocs, dsize, dalign) = unwatch();
    if bytes > 0 {
        out.count("buffer_releases_observed", 1);
        if deallocs != 1 || dsize != bytes || dalign != std::mem::align_of::<U>() {
            out.violation(
                "buffer-release",
                format!(
                    "dropping the result released the buffer {} times (size {} align {}), expected once with size {} align {}",
                    deallocs, dsize, dalign, bytes, std::mem::align_of::<U>()
                ),
                &case,
            );
        }
    }
    for p in ledger_problems(ledger::close_epoch()) {
        out.violation("ledger", p, &case);
    }
    if T::COUNTED && T::zst_drops() - t_drops0 != n as u64 && std::any::TypeId::of::<T>() != std::any::TypeId::of::<U>() {
        out.violation(
            "zst-input-drop-count",
            format!("{} inputs, {} input drops", n, T::zst_drops() - t_drops0),
            &case,
        );
    }
    if U::COUNTED && std::any::TypeId::of::<T>() != std::any::TypeId::of::<U>() {
        let made = model.len() as u64
            + if kind == ConvKind::ModifyPrev {
                // every modification made one more output and dropped one
                log.iter().filter(|(_, _, p)| p.is_some()).count() as u64
            } else {
                0
            };
        if U::zst_drops() - u_drops0 != made {
            out.violation(
                "zst-output-drop-count",
                format!("{} outputs made, {} output drops", made, U::zst_drops() - u_drops0),
                &case,
            );
        }
    }
    let nconv = pattern.iter().filter(|b| **b).count();
    if n >= 2 && nconv >= 1 && nconv < n {
        out.distinct.insert(vtypes::fnv64(case.as_bytes()));
        if out.samples.len() < 5 && out.evaluations % 211 == 0 {
            out.samples.push(case);
        }
    }
}

/// One failing conversion (C09): elements before `pos` follow `pattern`, element `pos` fails.
fn case_fail<T: Elem, U: Elem>(
    n: usize,
    pos: usize,
    pattern: &[bool],
    fail: FailKind,
    spare: usize,
    use_try: bool,
    out: &mut Out,
) {
    let case = format!(
        "fail {}->{} ({}) len={} spare={} fail_at={} kind={:?} before={} via={}",
        T::NAME,
        U::NAME,
        std::any::type_name::<T>(),
        n,
        spare,
        pos,
        fail,
        pattern.iter().map(|b| if *b { 'C' } else { 'a' }).collect::<String>(),
        if use_try { "try_convert" } else { "convert" }
    );
    out.evaluations += 1;
    let _ = ledger::close_epoch();
    let t_drops0 = T::zst_drops();
    let u_drops0 = U::zst_drops();
    let same_type = std::any::TypeId::of::<T>() == std::any::TypeId::of::<U>();
    let mut input: Vec<T> = Vec::with_capacity(n + spare);
    for i in 0..n {
        input.push(T::make(1 + i as u64));
    }
    let in_ptr = input.as_ptr() as usize;
    let bytes = input.capacity() * std::mem::size_of::<T>();
    let token = 0xF00D_0000 + (pos as u64) * 64 + n as u64;
    let calls = AtomicUsize::new(0);
    let outputs_made = AtomicUsize::new(0);
    // a vector without allocation has nothing to watch (counters are reset all the same)
    watch(if bytes > 0 { in_ptr } else { 0 });
    let conv = |t: T, _prev: Option<&mut U>| -> Result<VecElementConversionResult<U>, InjectedError> {
        let i = calls.fetch_add(1, Ordering::Relaxed);
        if i == pos {
            match fail {
                FailKind::ErrorReturn => {
                    drop(t);
                    return Err(InjectedError(token));
                }
                FailKind::PanicHoldingInput => {
                    let _hold = t;
                    std::panic::panic_any(InjectedPanic(token));
                }
                FailKind::PanicAfterDroppingInput => {
                    drop(t);
                    std::panic::panic_any(InjectedPanic(token));
                }
                FailKind::PanicAfterBuildingOutput => {
                    drop(t);
                    let _u = U::make(OUT_BASE + i as u64);
                    outputs_made.fetch_add(1, Ordering::Relaxed);
                    std::panic::panic_any(InjectedPanic(token));
                }
            }
        }
        drop(t);
        if i < pattern.len() && pattern[i] {
            outputs_made.fetch_add(1, Ordering::Relaxed);
            Ok(VecElementConversionResult::Converted(U::make(OUT_BASE + i as u64)))
        } else {
            Ok(VecElementConversionResult::Abandonned)
        }
    };
    enum Got {
        Returned(usize),
        Err(InjectedError),
        Panic(Box<dyn std::any::Any + Send>),
    }
    let got = if use_try {
        match catch_unwind(AssertUnwindSafe(|| {
            try_convert_vec_in_place::<T, U, _, InjectedError>(input, conv)
        })) {
            Ok(Ok(v)) => Got::Returned(v.len()),
            Ok(Err(e)) => Got::Err(e),
            Err(p) => Got::Panic(p),
        }
    } else {
        match catch_unwind(AssertUnwindSafe(|| {
            convert_vec_in_place::<T, U, _>(input, |t, p| match conv(t, p) {
                Ok(r) => r,
                Err(_) => unreachable!(),
            })
        })) {
            Ok(v) => Got::Returned(v.len()),
            Err(p) => Got::Panic(p),
        }
    };
    let (deallocs, reallocs, dsize, _dalign) = unwatch();
    // the caller receives that very error / payload
    match (&got, fail) {
        (Got::Err(e), FailKind::ErrorReturn) => {
            if e.0 != token {
                out.violation("error-value-changed", format!("got {:?}, injected {}", e, token), &case);
            }
            out.count("error_values_checked", 1);
        }
        (Got::Panic(p), k) if k != FailKind::ErrorReturn => {
            match p.downcast_ref::<InjectedPanic>() {
                Some(ip) if ip.0 == token => {}
                Some(ip) => out.violation("panic-payload-changed", format!("got {:?}, injected {}", ip, token), &case),
                None => {
                    let text = p
                        .downcast_ref::<String>()
                        .cloned()
                        .or_else(|| p.downcast_ref::<&str>().map(|s| s.to_string()))
                        .unwrap_or_else(|| "<other type>".to_owned());
                    out.violation(
                        "panic-payload-replaced",
                        format!("the caller received a payload of another type: {:?}", text),
                        &case,
                    );
                }
            }
            out.count("panic_payloads_checked", 1);
        }
        (Got::Returned(len), _) => {
            out.violation("failure-swallowed", format!("the call returned a vector of length {}", len), &case);
        }
        (Got::Err(_), _) => out.violation("unexpected-error", "Err returned for a panic case".to_owned(), &case),
        (Got::Panic(_), _) => out.violation("unexpected-panic", "panic for an error-return case".to_owned(), &case),
    }
    // no call after the failing one
    let ncalls = calls.load(Ordering::Relaxed);
    if ncalls != pos + 1 {
        out.violation(
            "converter-called-after-failure",
            format!("{} converter calls, failure was at call {}", ncalls, pos),
            &case,
        );
    }
    // the allocation is released exactly once before control returns
    if bytes > 0 {
        out.count("buffer_releases_observed", 1);
        if deallocs != 1 || reallocs != 0 || dsize != bytes {
            out.violation(
                "buffer-release",
                format!(
                    "buffer of {} bytes: {} deallocations (size {}), {} reallocations before control returned",
                    bytes, deallocs, dsize, reallocs
                ),
                &case,
            );
        }
    }
    // every input and every produced output is dead, exactly once
    let events = ledger::close_epoch();
    for p in ledger_problems(events) {
        out.violation("ledger", p, &case);
    }
    if T::COUNTED && !same_type {
        let d = T::zst_drops() - t_drops0;
        if d != n as u64 {
            out.violation("zst-input-drop-count", format!("{} inputs, {} input drops", n, d), &case);
        }
    }
    if U::COUNTED && !same_type {
        let d = U::zst_drops() - u_drops0;
        let made = outputs_made.load(Ordering::Relaxed) as u64;
        if d != made {
            out.violation("zst-output-drop-count", format!("{} outputs made, {} output drops", made, d), &case);
        }
    }
    if T::COUNTED && same_type {
        let d = T::zst_drops() - t_drops0;
        let made = n as u64 + outputs_made.load(Ordering::Relaxed) as u64;
        if d != made {
            out.violation("zst-drop-count", format!("{} values made, {} drops", made, d), &case);
        }
    }
    out.count("ledger_epochs_closed", 1);
    let nconv = pattern.iter().filter(|b| **b).count();
    if n >= 2 && (nconv >= 1 || pos + 1 < n) {
        out.distinct.insert(vtypes::fnv64(case.as_bytes()));
        if out.samples.len() < 5 && out.evaluations % 509 == 0 {
            out.samples.push(case);
        }
    }
}

/// One refusal case (C10).
fn case_refuse<T: Elem, U: Elem>(n: usize, spare: usize, use_try: bool, out: &mut Out) {
    let same_layout = std::mem::size_of::<T>() == std::mem::size_of::<U>()
        && std::mem::align_of::<T>() == std::mem::align_of::<U>();
    let case = format!(
        "refuse {}->{} len={} spare={} same_layout={} via={}",
        T::NAME,
        U::NAME,
        n,
        spare,
        same_layout,
        if use_try { "try_convert" } else { "convert" }
    );
    out.evaluations += 1;
    let _ = ledger::close_epoch();
    let t_drops0 = T::zst_drops();
    let mut input: Vec<T> = Vec::with_capacity(n + spare);
    for i in 0..n {
        input.push(T::make(1 + i as u64));
    }
    let in_ptr = input.as_ptr() as usize;
    let bytes = input.capacity() * std::mem::size_of::<T>();
    let calls = AtomicUsize::new(0);
    // a vector without allocation has nothing to watch (counters are reset all the same)
    watch(if bytes > 0 { in_ptr } else { 0 });
    // The converter never builds a `U` out of a mismatching `T`: it only records the call.
    let r = if use_try {
        catch_unwind(AssertUnwindSafe(|| {
            try_convert_vec_in_place::<T, U, _, InjectedError>(input, |t, _| {
                calls.fetch_add(1, Ordering::Relaxed);
                drop(t);
                Ok(VecElementConversionResult::Abandonned)
            })
            .map(|v| v.len())
        }))
        .map(|r| r.unwrap_or(usize::MAX))
    } else {
        catch_unwind(AssertUnwindSafe(|| {
            convert_vec_in_place::<T, U, _>(input, |t, _| {
                calls.fetch_add(1, Ordering::Relaxed);
                drop(t);
                VecElementConversionResult::Abandonned
            })
            .len()
        }))
    };
    let (deallocs, reallocs, dsize, dalign) = unwatch();
    let ncalls = calls.load(Ordering::Relaxed);
    if same_layout {
        out.count("control_pairs", 1);
        match r {
            Ok(0) => {}
            Ok(l) => out.violation("control-result", format!("all elements abandoned but the result has length {}", l), &case),
            Err(_) => out.violation("control-refused", "types of equal size and alignment were refused".to_owned(), &case),
        }
        if ncalls != n {
            out.violation("control-call-count", format!("{} calls for {} elements", ncalls, n), &case);
        }
    } else {
        out.count("mismatching_pairs", 1);
        if let Ok(l) = &r {
            out.violation(
                "mismatch-accepted",
                format!(
                    "size {}/{} align {}/{}: the call returned (length {}) instead of panicking",
                    std::mem::size_of::<T>(),
                    std::mem::size_of::<U>(),
                    std::mem::align_of::<T>(),
                    std::mem::align_of::<U>(),
                    l
                ),
                &case,
            );
        }
        if ncalls != 0 {
            out.violation(
                "converter-called-on-mismatch",
                format!("{} converter calls before the refusal", ncalls),
                &case,
            );
        }
    }
    if bytes > 0 {
        out.count("buffer_releases_observed", 1);
        // the input vector is dropped normally: with the layout it was allocated with
        if deallocs != 1 || reallocs != 0 || dsize != bytes || dalign != std::mem::align_of::<T>() && !same_layout {
            out.violation(
                "buffer-release",
                format!(
                    "buffer of {} bytes align {}: {} deallocations (size {} align {}), {} reallocations",
                    bytes,
                    std::mem::align_of::<T>(),
                    deallocs,
                    dsize,
                    dalign,
                    reallocs
                ),
                &case,
            );
        }
    }
    for p in ledger_problems(ledger::close_epoch()) {
        out.violation("ledger", p, &case);
    }
    if T::COUNTED && std::any::TypeId::of::<T>() != std::any::TypeId::of::<U>() {
        let d = T::zst_drops() - t_drops0;
        if d != n as u64 {
            out.violation("zst-input-drop-count", format!("{} inputs, {} drops", n, d), &case);
        }
    }
    if !same_layout {
        out.distinct.insert(vtypes::fnv64(case.as_bytes()));
        if out.samples.len() < 5 && out.evaluations % 97 == 0 {
            out.samples.push(case);
        }
    }
}

// ---------------------------------------------------------------------------------------------
// workloads

fn patterns(n: usize) -> Vec<Vec<bool>> {
    (0..(1u32 << n))
        .map(|m| (0..n).map(|i| m & (1 << i) != 0).collect())
        .collect()
}

fn workload_convert<T: Elem, U: Elem>(max_len: usize, random: usize, max_random_len: usize, rng: &mut Rng, out: &mut Out) {
    for n in 0..=max_len {
        for pat in patterns(n) {
            for kind in [ConvKind::IgnorePrev, ConvKind::ReadPrev, ConvKind::ModifyPrev] {
                for spare in [0usize, 3] {
                    for use_try in [false, true] {
                        if use_try && (spare != 0 || kind == ConvKind::ReadPrev) {
                            continue;
                        }
                        case_convert::<T, U>(&pat, spare, kind, use_try, out);
                    }
                }
            }
        }
    }
    for _ in 0..random {
        let n = rng.range(0, max_random_len);
        let density = rng.range(0, 10);
        let pat: Vec<bool> = (0..n).map(|_| rng.below(10) < density).collect();
        let kind = *rng.pick(&[ConvKind::IgnorePrev, ConvKind::ReadPrev, ConvKind::ModifyPrev]);
        let spare = *rng.pick(&[0usize, 0, 1, 7, 64]);
        case_convert::<T, U>(&pat, spare, kind, rng.chance(1, 3), out);
    }
}

fn workload_fail<T: Elem, U: Elem>(max_len: usize, random: usize, max_random_len: usize, rng: &mut Rng, out: &mut Out) {
    let kinds = [
        FailKind::ErrorReturn,
        FailKind::PanicHoldingInput,
        FailKind::PanicAfterDroppingInput,
        FailKind::PanicAfterBuildingOutput,
    ];
    for n in 1..=max_len {
        for pos in 0..n {
            for pat in patterns(pos) {
                for fail in kinds {
                    // error returns only exist in the try_ form; panics are run through both
                    case_fail::<T, U>(n, pos, &pat, fail, 0, true, out);
                    if fail != FailKind::ErrorReturn {
                        case_fail::<T, U>(n, pos, &pat, fail, 0, false, out);
                    }
                }
            }
        }
    }
    for _ in 0..random {
        let n = rng.range(1, max_random_len);
        let pos = rng.below(n);
        let density = rng.range(0, 10);
        let pat: Vec<bool> = (0..pos).map(|_| rng.below(10) < density).collect();
        let fail = *rng.pick(&kinds);
        let spare = *rng.pick(&[0usize, 0, 1, 7, 64]);
        let use_try = fail == FailKind::ErrorReturn || rng.chance(1, 2);
        case_fail::<T, U>(n, pos, &pat, fail, spare, use_try, out);
    }
}

static PAIR_TURN: AtomicUsize = AtomicUsize::new(0);
static PAIR_SHARD: AtomicUsize = AtomicUsize::new(0);
static PAIR_NSHARDS: AtomicUsize = AtomicUsize::new(1);

/// Type pairs are dealt round-robin to the shards.
fn my_turn() -> bool {
    let t = PAIR_TURN.fetch_add(1, Ordering::Relaxed);
    t % PAIR_NSHARDS.load(Ordering::Relaxed) == PAIR_SHARD.load(Ordering::Relaxed)
}

macro_rules! for_pairs {
    ($f:ident, $($args:expr),*) => {{
        if my_turn() { $f::<u64, u64>($($args),*); }
        if my_turn() { $f::<u64, f64>($($args),*); }
        if my_turn() { $f::<HeapA, HeapB>($($args),*); }
        if my_turn() { $f::<HeapA, HeapA>($($args),*); }
        if my_turn() { $f::<E<(), 0>, E<(), 1>>($($args),*); }
        if my_turn() { $f::<E<[u64; 0], 0>, E<[u64; 0], 1>>($($args),*); }
        if my_turn() { $f::<E<(), 2>, E<(), 2>>($($args),*); }
        if my_turn() { $f::<E<[u8; 3], 0>, E<[u8; 3], 1>>($($args),*); }
        if my_turn() { $f::<E<u32, 0>, E<u32, 1>>($($args),*); }
        if my_turn() { $f::<E<[u8; 8], 0>, E<[u8; 8], 1>>($($args),*); }
        if my_turn() { $f::<E<[u64; 2], 0>, E<[u64; 2], 1>>($($args),*); }
        if my_turn() { $f::<E<vtypes::A32, 0>, E<vtypes::A32, 1>>($($args),*); }
        if my_turn() { $f::<E<[u64; 32], 0>, E<[u64; 32], 1>>($($args),*); }
        // mixed droppiness: only one side has observable drops
        if my_turn() { $f::<u64, E<u64, 1>>($($args),*); }
        if my_turn() { $f::<E<u64, 0>, u64>($($args),*); }
    }};
}

macro_rules! refuse_row {
    ($t:ty, $max_len:expr, $out:expr) => {{
        if my_turn() { refuse_cell::<$t, E<(), 1>>($max_len, $out); }
        if my_turn() { refuse_cell::<$t, E<[u64; 0], 1>>($max_len, $out); }
        if my_turn() { refuse_cell::<$t, E<u32, 1>>($max_len, $out); }
        if my_turn() { refuse_cell::<$t, E<[u8; 4], 1>>($max_len, $out); }
        if my_turn() { refuse_cell::<$t, E<u64, 1>>($max_len, $out); }
        if my_turn() { refuse_cell::<$t, E<[u32; 2], 1>>($max_len, $out); }
        if my_turn() { refuse_cell::<$t, E<[u8; 8], 1>>($max_len, $out); }
        if my_turn() { refuse_cell::<$t, E<[u64; 2], 1>>($max_len, $out); }
        if my_turn() { refuse_cell::<$t, E<vtypes::A16, 1>>($max_len, $out); }
    }};
}

fn refuse_cell<T: Elem, U: Elem>(max_len: usize, out: &mut Out) {
    for n in 0..=max_len {
        for spare in [0usize, 2] {
            for use_try in [false, true] {
                case_refuse::<T, U>(n, spare, use_try, out);
            }
        }
    }
}

fn main() {
    let args: Vec<String> = std::env::args().collect();
    let mode = args.get(1).cloned().unwrap_or_default();
    let get = |k: &str, d: u64| -> u64 {
        args.iter()
            .position(|a| a == k)
            .and_then(|i| args.get(i + 1))
            .and_then(|v| v.parse().ok())
            .unwrap_or(d)
    };
    let seed = get("--seed", 1);
    let max_len = get("--max-len", 6) as usize;
    PAIR_SHARD.store(get("--shard", 0) as usize, Ordering::Relaxed);
    PAIR_NSHARDS.store(get("--nshards", 1).max(1) as usize, Ordering::Relaxed);
    let random = get("--random", 200) as usize;
    let max_random_len = get("--max-random-len", 2000) as usize;
    let out_path = args
        .iter()
        .position(|a| a == "--out")
        .and_then(|i| args.get(i + 1))
        .cloned();
    // injected panics are expected: keep stderr quiet
    std::panic::set_hook(Box::new(|_| {}));
    let mut out = Out::default();
    let mut rng = Rng::stream(seed, 0xC0);
    match mode.as_str() {
        "convert" => {
            for_pairs!(workload_convert, max_len, random, max_random_len, &mut rng, &mut out);
        }
        "fail" => {
            for_pairs!(workload_fail, max_len, random, max_random_len, &mut rng, &mut out);
        }
        "refuse" => {
            refuse_row!(E<(), 0>, max_len, &mut out);
            refuse_row!(E<[u64; 0], 0>, max_len, &mut out);
            refuse_row!(E<u32, 0>, max_len, &mut out);
            refuse_row!(E<[u8; 4], 0>, max_len, &mut out);
            refuse_row!(E<u64, 0>, max_len, &mut out);
            refuse_row!(E<[u32; 2], 0>, max_len, &mut out);
            refuse_row!(E<[u8; 8], 0>, max_len, &mut out);
            refuse_row!(E<[u64; 2], 0>, max_len, &mut out);
            refuse_row!(E<vtypes::A16, 0>, max_len, &mut out);
        }
        "noop" => {}
        _ => {
            eprintln!("usage: vecmon convert|fail|refuse [--seed N] [--max-len N] [--random N] [--max-random-len N] [--out F]");
            std::process::exit(2);
        }
    }
    let totals = ledger::totals();
    out.count("ledger_births", totals.births);
    out.count("ledger_deaths", totals.deaths);
    out.count("allocator_events", ALLOC_EVENTS.load(Ordering::Relaxed));
    let report = serde_json::json!({
        "mode": mode,
        "seed": seed,
        "max_len": max_len,
        "evaluations": out.evaluations,
        "distinct_nontrivial": out.distinct.len(),
        "counters": out.counters,
        "samples": out.samples,
        "violations_total": out.violations_total,
        "violations": out.violations.iter().map(|(k, d, c)| serde_json::json!({"kind": k, "detail": d, "case": c})).collect::<Vec<_>>(),
    });
    match out_path {
        Some(p) => std::fs::write(p, report.to_string()).unwrap(),
        None => println!("{}", report),
    }
    let _ = PhantomData::<()>;
}
