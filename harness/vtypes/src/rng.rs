//! xoshiro256** seeded through splitmix64.

#[derive(Clone, Debug)]
pub struct Rng {
    s: [u64; 4],
}

fn splitmix64(x: &mut u64) -> u64 {
    *x = x.wrapping_add(0x9E37_79B9_7F4A_7C15);
    let mut z = *x;
    z = (z ^ (z >> 30)).wrapping_mul(0xBF58_476D_1CE4_E5B9);
    z = (z ^ (z >> 27)).wrapping_mul(0x94D0_49BB_1331_11EB);
    z ^ (z >> 31)
}

impl Rng {
    pub fn new(seed: u64) -> Self {
        let mut x = seed;
        Rng {
            s: [
                splitmix64(&mut x),
                splitmix64(&mut x),
                splitmix64(&mut x),
                splitmix64(&mut x),
            ],
        }
    }

    /// Independent stream `k` of seed `seed`.
    pub fn stream(seed: u64, k: u64) -> Self {
        Rng::new(seed ^ k.wrapping_mul(0xA24B_AED4_963E_E407).rotate_left(23) ^ 0x5851_F42D_4C95_7F2D)
    }

    pub fn next_u64(&mut self) -> u64 {
        let result = self.s[1].wrapping_mul(5).rotate_left(7).wrapping_mul(9);
        let t = self.s[1] << 17;
        self.s[2] ^= self.s[0];
        self.s[3] ^= self.s[1];
        self.s[1] ^= self.s[2];
        self.s[0] ^= self.s[3];
        self.s[2] ^= t;
        self.s[3] = self.s[3].rotate_left(45);
        result
    }

    /// Uniform in `0..n` (`n > 0`).
    pub fn below(&mut self, n: usize) -> usize {
        debug_assert!(n > 0);
        ((self.next_u64() >> 11) % n as u64) as usize
    }

    /// Uniform in `lo..=hi`.
    pub fn range(&mut self, lo: usize, hi: usize) -> usize {
        lo + self.below(hi - lo + 1)
    }

    /// True with probability `num / den`.
    pub fn chance(&mut self, num: usize, den: usize) -> bool {
        self.below(den) < num
    }

    pub fn pick<'a, T>(&mut self, items: &'a [T]) -> &'a T {
        &items[self.below(items.len())]
    }

    pub fn shuffle<T>(&mut self, items: &mut [T]) {
        for i in (1..items.len()).rev() {
            let j = self.below(i + 1);
            items.swap(i, j);
        }
    }
}
