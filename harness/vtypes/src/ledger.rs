//! Births and deaths of instrumented values, keyed by serial number.

use std::collections::BTreeMap;
use std::sync::atomic::{AtomicU64, Ordering};
use std::sync::Mutex;

#[derive(Clone, Copy, Debug, PartialEq, Eq)]
pub enum State {
    Live,
    Dropped,
}

#[derive(Clone, Debug, PartialEq, Eq)]
pub enum LedgerEvent {
    /// A value was dropped a second time.
    DoubleDrop(u64),
    /// A value that was never born (or belongs to a closed epoch) was dropped.
    DropUnknown(u64),
    /// Two live values share a serial.
    DuplicateBirth(u64),
    /// A value was still alive when its epoch was closed.
    Leak(u64),
}

struct Ledger {
    map: BTreeMap<u64, State>,
    events: Vec<LedgerEvent>,
}

static LEDGER: Mutex<Ledger> = Mutex::new(Ledger {
    map: BTreeMap::new(),
    events: Vec::new(),
});

static BIRTHS: AtomicU64 = AtomicU64::new(0);
static DEATHS: AtomicU64 = AtomicU64::new(0);
static ZST_BIRTHS: AtomicU64 = AtomicU64::new(0);
static ZST_DEATHS: AtomicU64 = AtomicU64::new(0);

fn lock() -> std::sync::MutexGuard<'static, Ledger> {
    LEDGER.lock().unwrap_or_else(|e| e.into_inner())
}

pub fn birth(serial: u64) {
    BIRTHS.fetch_add(1, Ordering::Relaxed);
    let mut l = lock();
    if let Some(State::Live) = l.map.insert(serial, State::Live) {
        l.events.push(LedgerEvent::DuplicateBirth(serial));
    }
}

/// Records a death. Returns `true` when this is the first death of a live value (the caller may
/// then release what the value owns).
pub fn death(serial: u64) -> bool {
    DEATHS.fetch_add(1, Ordering::Relaxed);
    let mut l = lock();
    match l.map.get(&serial).copied() {
        Some(State::Live) => {
            l.map.insert(serial, State::Dropped);
            true
        }
        Some(State::Dropped) => {
            l.events.push(LedgerEvent::DoubleDrop(serial));
            false
        }
        None => {
            l.events.push(LedgerEvent::DropUnknown(serial));
            false
        }
    }
}

/// Forgets values that are alive and known to be unreachable for a reason outside the
/// properties (returns how many were alive).
pub fn forget(serials: &[u64]) -> usize {
    let mut l = lock();
    let mut n = 0;
    for s in serials {
        if l.map.get(s) == Some(&State::Live) {
            l.map.remove(s);
            n += 1;
        }
    }
    n
}

pub fn state(serial: u64) -> Option<State> {
    lock().map.get(&serial).copied()
}

/// Serials currently alive.
pub fn live() -> Vec<u64> {
    lock()
        .map
        .iter()
        .filter(|(_, s)| **s == State::Live)
        .map(|(k, _)| *k)
        .collect()
}

pub fn live_count() -> usize {
    lock().map.values().filter(|s| **s == State::Live).count()
}

/// Closes the epoch: every value still alive becomes a [`LedgerEvent::Leak`]; the map is
/// cleared; all events recorded so far are returned.
pub fn close_epoch() -> Vec<LedgerEvent> {
    let mut l = lock();
    let leaks: Vec<u64> = l
        .map
        .iter()
        .filter(|(_, s)| **s == State::Live)
        .map(|(k, _)| *k)
        .collect();
    for k in leaks {
        l.events.push(LedgerEvent::Leak(k));
    }
    l.map.clear();
    std::mem::take(&mut l.events)
}

/// Events recorded so far (and clears them), without closing the epoch.
pub fn take_events() -> Vec<LedgerEvent> {
    std::mem::take(&mut lock().events)
}

pub fn zst_birth() {
    ZST_BIRTHS.fetch_add(1, Ordering::Relaxed);
}

pub fn zst_death() {
    ZST_DEATHS.fetch_add(1, Ordering::Relaxed);
}

#[derive(Clone, Copy, Debug, Default, PartialEq, Eq)]
pub struct Totals {
    pub births: u64,
    pub deaths: u64,
    pub zst_births: u64,
    pub zst_deaths: u64,
}

pub fn totals() -> Totals {
    Totals {
        births: BIRTHS.load(Ordering::Relaxed),
        deaths: DEATHS.load(Ordering::Relaxed),
        zst_births: ZST_BIRTHS.load(Ordering::Relaxed),
        zst_deaths: ZST_DEATHS.load(Ordering::Relaxed),
    }
}
