//! Instrumented value types, ledger and PRNG shared by the monitors.
//!
//! * [`Probe`]: every palette type can be made from an id and gives the id back, so that
//!   reference models and drivers are type-agnostic.
//! * [`ledger`]: births and deaths of the instrumented droppable values ([`Tracked`] and
//!   friends). It stores serial numbers only, never addresses, so it cannot hide a leak or a
//!   double free from Miri or memcheck.
//! * [`Rng`]: xoshiro256**, seeded through splitmix64 (no external crate).

use std::mem::{ManuallyDrop, MaybeUninit};

pub mod ledger;
pub mod nested;
pub mod rng;


pub use rng::Rng;

// User-crate types whose paths look like the standard ones (C17: a recorded name must keep
// denoting *these* types, not the standard types of the same name).

pub mod option {
    #[derive(Clone, Copy, Debug, PartialEq, Eq)]
    pub struct Option<T>(pub T);
}
pub mod result {
    #[derive(Clone, Copy, Debug, PartialEq, Eq)]
    pub struct Result<T, E>(pub T, pub E);
}
pub mod string {
    #[derive(Clone, Copy, Debug, PartialEq, Eq)]
    pub struct String(pub u8);
}
pub mod vec {
    #[derive(Clone, Copy, Debug, PartialEq, Eq)]
    pub struct Vec<T>(pub T);
}
pub mod boxed {
    #[derive(Clone, Copy, Debug, PartialEq, Eq)]
    pub struct Box<T>(pub T);
}


/// A value that can be made from an id and gives it back.
pub trait Probe: Sized {
    /// Makes the value that stands for `id`.
    fn make(id: u64) -> Self;
    /// What a value made from `id` answers to [`Probe::ident`].
    fn norm(id: u64) -> u64;
    /// Reads the id back. A value that is internally inconsistent (half overwritten) answers a
    /// poison value (`POISON | something`).
    fn ident(&self) -> u64;
    /// Like [`Probe::make`], but instrumented values get a serial of their own, so that a
    /// second value standing for the same id can exist next to the first one.
    fn make_detached(id: u64) -> Self {
        Self::make(id)
    }
    /// Ledger serials of the instrumented values inside (empty for plain types).
    fn serials(&self) -> Vec<u64> {
        Vec::new()
    }
    /// How many times cloning this value consults [`CLONE_PANIC_COUNTDOWN`].
    fn clone_points() -> usize {
        0
    }
}

/// Spreads an id over all 64 bits (bijective), so that values made from small ids exercise the
/// full width of their type: a store that loses high bytes or truncates a word shows.
pub fn scr(id: u64) -> u64 {
    let mut z = id.wrapping_add(0x9E37_79B9_7F4A_7C15);
    z = (z ^ (z >> 30)).wrapping_mul(0xBF58_476D_1CE4_E5B9);
    z = (z ^ (z >> 27)).wrapping_mul(0x94D0_49BB_1331_11EB);
    z ^ (z >> 31)
}

/// Marker returned by [`Probe::ident`] for inconsistent values.
pub const POISON: u64 = 0xDEAD_0000_0000_0000;

macro_rules! probe_int {
    ($($t:ty),*) => {$(
        impl Probe for $t {
            fn make(id: u64) -> Self { scr(id) as $t }
            fn norm(id: u64) -> u64 { (scr(id) as $t) as u64 }
            fn ident(&self) -> u64 { *self as u64 }
        }
    )*};
}
probe_int!(u8, u16, u32, u64, usize);

impl Probe for i64 {
    fn make(id: u64) -> Self {
        scr(id) as i64
    }
    fn norm(id: u64) -> u64 {
        scr(id)
    }
    fn ident(&self) -> u64 {
        *self as u64
    }
}

impl Probe for u128 {
    fn make(id: u64) -> Self {
        let id = scr(id);
        ((!id as u128) << 64) | id as u128
    }
    fn norm(id: u64) -> u64 {
        scr(id)
    }
    fn ident(&self) -> u64 {
        let lo = *self as u64;
        let hi = (*self >> 64) as u64;
        if hi == !lo {
            lo
        } else {
            POISON | (lo & 0xffff_ffff)
        }
    }
}

impl Probe for bool {
    fn make(id: u64) -> Self {
        scr(id) & 1 == 1
    }
    fn norm(id: u64) -> u64 {
        scr(id) & 1
    }
    fn ident(&self) -> u64 {
        *self as u64
    }
}

impl Probe for char {
    fn make(id: u64) -> Self {
        char::from_u32(0x20 + (scr(id) % 0xD7E0) as u32).unwrap()
    }
    fn norm(id: u64) -> u64 {
        scr(id) % 0xD7E0
    }
    fn ident(&self) -> u64 {
        (*self as u32 as u64).wrapping_sub(0x20)
    }
}

impl Probe for f64 {
    // 32 bits only: serde_json (without its `float_roundtrip` feature) may be one unit in the
    // last place off when it parses a float with more digits, which is not truc's concern
    fn make(id: u64) -> Self {
        (scr(id) & 0xffff_ffff) as f64
    }
    fn norm(id: u64) -> u64 {
        scr(id) & 0xffff_ffff
    }
    fn ident(&self) -> u64 {
        *self as u64
    }
}

impl Probe for f32 {
    fn make(id: u64) -> Self {
        (scr(id) & ((1 << 23) - 1)) as f32
    }
    fn norm(id: u64) -> u64 {
        scr(id) & ((1 << 23) - 1)
    }
    fn ident(&self) -> u64 {
        *self as u64
    }
}

macro_rules! probe_array {
    ($t:ty, $n:expr) => {
        impl Probe for [$t; $n] {
            fn make(id: u64) -> Self {
                let id = scr(id);
                let mut a = [0 as $t; $n];
                for (i, x) in a.iter_mut().enumerate() {
                    *x = (id.wrapping_add((i as u64).wrapping_mul(0x9E37))) as $t;
                }
                a
            }
            fn norm(id: u64) -> u64 {
                (scr(id) as $t) as u64
            }
            fn ident(&self) -> u64 {
                let first = self[0] as u64;
                for (i, x) in self.iter().enumerate() {
                    // consistent iff every element is first + i * 0x9E37 (mod the element width)
                    let expected = (self[0] as u64).wrapping_add((i as u64).wrapping_mul(0x9E37)) as $t;
                    if *x != expected {
                        return POISON | (first & 0xffff_ffff);
                    }
                }
                first
            }
        }
    };
}
probe_array!(u8, 3);
probe_array!(u8, 5);
probe_array!(u8, 7);
probe_array!(u16, 3);
probe_array!(u32, 3);
probe_array!(u64, 3);
probe_array!(u64, 5);
probe_array!(u64, 40);

impl Probe for () {
    fn make(_id: u64) -> Self {}
    fn norm(_id: u64) -> u64 {
        0
    }
    fn ident(&self) -> u64 {
        0
    }
}

impl Probe for [u64; 0] {
    fn make(_id: u64) -> Self {
        []
    }
    fn norm(_id: u64) -> u64 {
        0
    }
    fn ident(&self) -> u64 {
        0
    }
}

impl Probe for [u16; 0] {
    fn make(_id: u64) -> Self {
        []
    }
    fn norm(_id: u64) -> u64 {
        0
    }
    fn ident(&self) -> u64 {
        0
    }
}

/// A may-be-uninitialised field that may legally stay unwritten. `ident` must only be called
/// when the model says the field was written.
impl Probe for MaybeUninit<u64> {
    fn make(id: u64) -> Self {
        MaybeUninit::new(scr(id))
    }
    fn norm(id: u64) -> u64 {
        scr(id)
    }
    fn ident(&self) -> u64 {
        unsafe { self.assume_init() }
    }
}

impl Probe for String {
    fn make(id: u64) -> Self {
        format!("s{}", id)
    }
    fn norm(id: u64) -> u64 {
        id
    }
    fn ident(&self) -> u64 {
        self.strip_prefix('s')
            .and_then(|s| s.parse().ok())
            .unwrap_or(POISON)
    }
}

impl Probe for Box<str> {
    fn make(id: u64) -> Self {
        format!("b{}", id).into_boxed_str()
    }
    fn norm(id: u64) -> u64 {
        id
    }
    fn ident(&self) -> u64 {
        self.strip_prefix('b')
            .and_then(|s| s.parse().ok())
            .unwrap_or(POISON)
    }
}

impl Probe for Vec<u32> {
    fn make(id: u64) -> Self {
        let mut v = vec![id as u32, (id >> 32) as u32];
        for i in 0..(id % 3) {
            v.push(i as u32);
        }
        v
    }
    fn norm(id: u64) -> u64 {
        id
    }
    fn ident(&self) -> u64 {
        if self.len() < 2 {
            return POISON;
        }
        let id = self[0] as u64 | (self[1] as u64) << 32;
        if self.len() as u64 != 2 + id % 3 {
            return POISON | (id & 0xffff_ffff);
        }
        id
    }
}

impl Probe for Option<Box<u64>> {
    fn make(id: u64) -> Self {
        if id % 4 == 0 {
            None
        } else {
            Some(Box::new(id))
        }
    }
    fn norm(id: u64) -> u64 {
        if id % 4 == 0 {
            0x4e4f_4e45
        } else {
            id
        }
    }
    fn ident(&self) -> u64 {
        match self {
            None => 0x4e4f_4e45,
            Some(b) => **b,
        }
    }
}

impl Probe for Option<u32> {
    fn make(id: u64) -> Self {
        if id % 3 == 0 {
            None
        } else {
            Some(scr(id) as u32)
        }
    }
    fn norm(id: u64) -> u64 {
        if id % 3 == 0 {
            0x4e4f_4e45_0000
        } else {
            scr(id) as u32 as u64
        }
    }
    fn ident(&self) -> u64 {
        match self {
            None => 0x4e4f_4e45_0000,
            Some(v) => *v as u64,
        }
    }
}

/// Plain user type in the crate root (C17 grammar).
#[derive(Clone, Copy, Debug, PartialEq, Eq, serde::Serialize, serde::Deserialize)]
pub struct Plain {
    pub a: u32,
    pub b: u16,
}

impl Probe for Plain {
    fn make(id: u64) -> Self {
        let id = scr(id);
        Plain {
            a: id as u32,
            b: !(id as u16),
        }
    }
    fn norm(id: u64) -> u64 {
        scr(id) as u32 as u64
    }
    fn ident(&self) -> u64 {
        if self.b == !(self.a as u16) {
            self.a as u64
        } else {
            POISON | self.a as u64
        }
    }
}

/// Over-aligned plain data, 16 bytes / align 16.
#[derive(Clone, Copy, Debug, PartialEq, Eq, serde::Serialize, serde::Deserialize)]
#[repr(align(16))]
pub struct A16 {
    pub v: u64,
    pub w: u64,
}

impl Probe for A16 {
    fn make(id: u64) -> Self {
        let id = scr(id);
        A16 { v: id, w: !id }
    }
    fn norm(id: u64) -> u64 {
        scr(id)
    }
    fn ident(&self) -> u64 {
        if self.w == !self.v {
            self.v
        } else {
            POISON | (self.v & 0xffff_ffff)
        }
    }
}

/// Over-aligned plain data, 32 bytes / align 32.
#[derive(Clone, Copy, Debug, PartialEq, Eq, serde::Serialize, serde::Deserialize)]
#[repr(align(32))]
pub struct A32 {
    pub v: u64,
    pub w: u64,
    pub x: u64,
}

impl Probe for A32 {
    fn make(id: u64) -> Self {
        let id = scr(id);
        A32 {
            v: id,
            w: !id,
            x: id.rotate_left(17),
        }
    }
    fn norm(id: u64) -> u64 {
        scr(id)
    }
    fn ident(&self) -> u64 {
        if self.w == !self.v && self.x == self.v.rotate_left(17) {
            self.v
        } else {
            POISON | (self.v & 0xffff_ffff)
        }
    }
}

/// Odd shape: 12 bytes / align 4.
#[derive(Clone, Copy, Debug, PartialEq, Eq, serde::Serialize, serde::Deserialize)]
pub struct S12 {
    pub a: u32,
    pub b: u32,
    pub c: u32,
}

impl Probe for S12 {
    fn make(id: u64) -> Self {
        let id = scr(id);
        S12 {
            a: id as u32,
            b: !(id as u32),
            c: (id as u32).rotate_left(7),
        }
    }
    fn norm(id: u64) -> u64 {
        scr(id) as u32 as u64
    }
    fn ident(&self) -> u64 {
        if self.b == !self.a && self.c == self.a.rotate_left(7) {
            self.a as u64
        } else {
            POISON | self.a as u64
        }
    }
}

/// Odd shape: 6 bytes / align 2.
#[derive(Clone, Copy, Debug, PartialEq, Eq, serde::Serialize, serde::Deserialize)]
pub struct S6 {
    pub a: u16,
    pub b: u16,
    pub c: u16,
}

impl Probe for S6 {
    fn make(id: u64) -> Self {
        let id = scr(id);
        S6 {
            a: id as u16,
            b: !(id as u16),
            c: (id as u16).rotate_left(3),
        }
    }
    fn norm(id: u64) -> u64 {
        scr(id) as u16 as u64
    }
    fn ident(&self) -> u64 {
        if self.b == !self.a && self.c == self.a.rotate_left(3) {
            self.a as u64
        } else {
            POISON | self.a as u64
        }
    }
}

thread_local! {
    /// Countdown consulted by [`Tracked::clone`]: when it reaches zero the clone panics.
    /// Negative = never.
    pub static CLONE_PANIC_COUNTDOWN: std::cell::Cell<i64> = const { std::cell::Cell::new(-1) };
}

thread_local! {
    /// Countdown consulted by [`Tracked`]'s destructor: when it reaches zero the destructor
    /// panics (after the value has been recorded as dead and its heap block released).
    /// Negative = never. It never fires while the thread is already unwinding.
    pub static DROP_PANIC_COUNTDOWN: std::cell::Cell<i64> = const { std::cell::Cell::new(-1) };
}

/// Payload type of the injected destructor panic.
#[derive(Debug)]
pub struct InjectedDropPanic;

/// Payload type of the injected clone panic.
#[derive(Debug)]
pub struct InjectedClonePanic;

/// Serial numbers handed to clones start here.
pub const CLONE_SERIAL_BASE: u64 = 1 << 62;
/// Serial numbers handed to deserialised values start here.
pub const DESER_SERIAL_BASE: u64 = 1 << 61;
/// Offset of the serial of the second element of `[Tracked; 2]` made from an id.
pub const PAIR_SERIAL_OFFSET: u64 = 1 << 40;
/// Ids passed to [`Probe::make`] by the drivers are below this bound.
pub const MAX_ID: u64 = 1 << 40;

static NEXT_CLONE_SERIAL: std::sync::atomic::AtomicU64 =
    std::sync::atomic::AtomicU64::new(CLONE_SERIAL_BASE);
static NEXT_DESER_SERIAL: std::sync::atomic::AtomicU64 =
    std::sync::atomic::AtomicU64::new(DESER_SERIAL_BASE);

/// Heap-owning instrumented value: 24 bytes / align 8.
///
/// Its birth and death are recorded in the [`ledger`]. A second drop of the same value is
/// recorded and the heap box is *not* freed again, so that the process survives to report; a
/// value that is never dropped keeps its box alive, so that Miri and memcheck see the leak too.
#[derive(Debug)]
pub struct Tracked {
    ident: u64,
    serial: u64,
    heap: ManuallyDrop<Box<u64>>,
}

impl Tracked {
    fn with_serial(ident: u64, serial: u64) -> Self {
        ledger::birth(serial);
        Tracked {
            ident,
            serial,
            heap: ManuallyDrop::new(Box::new(ident ^ serial)),
        }
    }

    /// The ledger key of this value.
    pub fn serial(&self) -> u64 {
        self.serial
    }
}

impl Probe for Tracked {
    fn make(id: u64) -> Self {
        Tracked::with_serial(scr(id), id)
    }
    fn make_detached(id: u64) -> Self {
        let serial = NEXT_CLONE_SERIAL.fetch_add(1, std::sync::atomic::Ordering::Relaxed);
        Tracked::with_serial(scr(id), serial)
    }
    fn norm(id: u64) -> u64 {
        scr(id)
    }
    fn ident(&self) -> u64 {
        // Reading the box makes a use after free visible to Miri / memcheck
        if **self.heap == self.ident ^ self.serial {
            self.ident
        } else {
            POISON | (self.ident & 0xffff_ffff)
        }
    }
    fn serials(&self) -> Vec<u64> {
        vec![self.serial]
    }
    fn clone_points() -> usize {
        1
    }
}

impl Drop for Tracked {
    fn drop(&mut self) {
        if ledger::death(self.serial) {
            unsafe { ManuallyDrop::drop(&mut self.heap) }
        }
        let fire = DROP_PANIC_COUNTDOWN.with(|c| {
            let v = c.get();
            if v > 0 {
                c.set(v - 1);
            }
            v == 1
        });
        if fire && !std::thread::panicking() {
            std::panic::panic_any(InjectedDropPanic);
        }
    }
}

impl Clone for Tracked {
    fn clone(&self) -> Self {
        let fire = CLONE_PANIC_COUNTDOWN.with(|c| {
            let v = c.get();
            if v > 0 {
                c.set(v - 1);
            }
            v == 1
        });
        if fire {
            CLONE_PANIC_COUNTDOWN.with(|c| c.set(-1));
            std::panic::panic_any(InjectedClonePanic);
        }
        let serial = NEXT_CLONE_SERIAL.fetch_add(1, std::sync::atomic::Ordering::Relaxed);
        Tracked::with_serial(self.ident, serial)
    }
}

impl serde::Serialize for Tracked {
    fn serialize<S: serde::Serializer>(&self, serializer: S) -> Result<S::Ok, S::Error> {
        serializer.serialize_u64(self.ident())
    }
}

impl<'de> serde::Deserialize<'de> for Tracked {
    fn deserialize<D: serde::Deserializer<'de>>(deserializer: D) -> Result<Self, D::Error> {
        let ident = u64::deserialize(deserializer)?;
        let serial = NEXT_DESER_SERIAL.fetch_add(1, std::sync::atomic::Ordering::Relaxed);
        Ok(Tracked::with_serial(ident, serial))
    }
}

impl Probe for [Tracked; 2] {
    fn make(id: u64) -> Self {
        [
            Tracked::with_serial(scr(id), id),
            Tracked::with_serial(!scr(id), id + PAIR_SERIAL_OFFSET),
        ]
    }
    fn make_detached(id: u64) -> Self {
        let s0 = NEXT_CLONE_SERIAL.fetch_add(2, std::sync::atomic::Ordering::Relaxed);
        [Tracked::with_serial(scr(id), s0), Tracked::with_serial(!scr(id), s0 + 1)]
    }
    fn norm(id: u64) -> u64 {
        scr(id)
    }
    fn ident(&self) -> u64 {
        let a = self[0].ident();
        let b = self[1].ident();
        if b == !a {
            a
        } else {
            POISON | (a & 0xffff_ffff)
        }
    }
    fn serials(&self) -> Vec<u64> {
        vec![self[0].serial, self[1].serial]
    }
    fn clone_points() -> usize {
        2
    }
}

/// Large heap-owning instrumented value: 40 bytes / align 8.
#[derive(Debug, Clone, serde::Serialize, serde::Deserialize)]
pub struct TrackedBig {
    t: Tracked,
    pad: [u64; 2],
}

impl Probe for TrackedBig {
    fn make(id: u64) -> Self {
        TrackedBig {
            t: Tracked::make(id),
            pad: [!scr(id), scr(id).rotate_left(9)],
        }
    }
    fn make_detached(id: u64) -> Self {
        TrackedBig {
            t: Tracked::make_detached(id),
            pad: [!scr(id), scr(id).rotate_left(9)],
        }
    }
    fn norm(id: u64) -> u64 {
        scr(id)
    }
    fn ident(&self) -> u64 {
        let id = self.t.ident();
        if self.pad == [!id, id.rotate_left(9)] {
            id
        } else {
            POISON | (id & 0xffff_ffff)
        }
    }
    fn serials(&self) -> Vec<u64> {
        vec![self.t.serial]
    }
    fn clone_points() -> usize {
        1
    }
}

/// Huge heap-owning instrumented value: 1304 bytes / align 8 (size thresholds such as 1 KiB).
#[derive(Debug, Clone)]
pub struct TrackedHuge {
    t: Tracked,
    pad: [u64; 160],
}

impl Probe for TrackedHuge {
    fn make(id: u64) -> Self {
        let mut pad = [0u64; 160];
        for (i, x) in pad.iter_mut().enumerate() {
            *x = scr(id).wrapping_add(i as u64);
        }
        TrackedHuge { t: Tracked::make(id), pad }
    }
    fn make_detached(id: u64) -> Self {
        let mut v = Self::make_detached_inner(id);
        v.pad[0] = scr(id);
        v
    }
    fn norm(id: u64) -> u64 {
        scr(id)
    }
    fn ident(&self) -> u64 {
        let id = self.t.ident();
        for (i, x) in self.pad.iter().enumerate() {
            if *x != id.wrapping_add(i as u64) {
                return POISON | (id & 0xffff_ffff);
            }
        }
        id
    }
    fn serials(&self) -> Vec<u64> {
        vec![self.t.serial]
    }
    fn clone_points() -> usize {
        1
    }
}

impl TrackedHuge {
    fn make_detached_inner(id: u64) -> Self {
        let mut pad = [0u64; 160];
        for (i, x) in pad.iter_mut().enumerate() {
            *x = scr(id).wrapping_add(i as u64);
        }
        TrackedHuge { t: Tracked::make_detached(id), pad }
    }
}

impl serde::Serialize for TrackedHuge {
    fn serialize<S: serde::Serializer>(&self, serializer: S) -> Result<S::Ok, S::Error> {
        // the payload alone determines the value
        serializer.serialize_u64(self.ident())
    }
}

impl<'de> serde::Deserialize<'de> for TrackedHuge {
    fn deserialize<D: serde::Deserializer<'de>>(deserializer: D) -> Result<Self, D::Error> {
        let t = Tracked::deserialize(deserializer)?;
        let id = t.ident;
        let mut pad = [0u64; 160];
        for (i, x) in pad.iter_mut().enumerate() {
            *x = id.wrapping_add(i as u64);
        }
        Ok(TrackedHuge { t, pad })
    }
}

/// Odd-sized droppable value: 12 bytes / align 4 (a `Box` would force align 8, so this one
/// keeps its serial inline and owns no heap memory).
#[derive(Debug)]
pub struct Tracked12 {
    ident: u32,
    serial_lo: u32,
    serial_hi: u32,
}

impl Tracked12 {
    fn serial(&self) -> u64 {
        self.serial_lo as u64 | (self.serial_hi as u64) << 32
    }
    fn with_serial(ident: u32, serial: u64) -> Self {
        ledger::birth(serial);
        Tracked12 {
            ident,
            serial_lo: serial as u32,
            serial_hi: (serial >> 32) as u32,
        }
    }
}

impl Probe for Tracked12 {
    fn make(id: u64) -> Self {
        Tracked12::with_serial(scr(id) as u32, id)
    }
    fn make_detached(id: u64) -> Self {
        let serial = NEXT_CLONE_SERIAL.fetch_add(1, std::sync::atomic::Ordering::Relaxed);
        Tracked12::with_serial(scr(id) as u32, serial)
    }
    fn norm(id: u64) -> u64 {
        scr(id) as u32 as u64
    }
    fn ident(&self) -> u64 {
        self.ident as u64
    }
    fn serials(&self) -> Vec<u64> {
        vec![self.serial()]
    }
}

impl Drop for Tracked12 {
    fn drop(&mut self) {
        ledger::death(self.serial());
    }
}

impl Clone for Tracked12 {
    fn clone(&self) -> Self {
        let serial = NEXT_CLONE_SERIAL.fetch_add(1, std::sync::atomic::Ordering::Relaxed);
        Tracked12::with_serial(self.ident, serial)
    }
}

impl serde::Serialize for Tracked12 {
    fn serialize<S: serde::Serializer>(&self, serializer: S) -> Result<S::Ok, S::Error> {
        serializer.serialize_u32(self.ident)
    }
}

impl<'de> serde::Deserialize<'de> for Tracked12 {
    fn deserialize<D: serde::Deserializer<'de>>(deserializer: D) -> Result<Self, D::Error> {
        let ident = u32::deserialize(deserializer)?;
        let serial = NEXT_DESER_SERIAL.fetch_add(1, std::sync::atomic::Ordering::Relaxed);
        Ok(Tracked12::with_serial(ident, serial))
    }
}

/// Zero-size type **with** a destructor; births and drops are counted.
#[derive(Debug)]
pub struct ZstDrop;

impl Probe for ZstDrop {
    fn make(_id: u64) -> Self {
        ledger::zst_birth();
        ZstDrop
    }
    fn norm(_id: u64) -> u64 {
        0
    }
    fn ident(&self) -> u64 {
        0
    }
}

impl Drop for ZstDrop {
    fn drop(&mut self) {
        ledger::zst_death();
    }
}

impl Clone for ZstDrop {
    fn clone(&self) -> Self {
        ledger::zst_birth();
        ZstDrop
    }
}

impl serde::Serialize for ZstDrop {
    fn serialize<S: serde::Serializer>(&self, serializer: S) -> Result<S::Ok, S::Error> {
        serializer.serialize_unit()
    }
}

impl<'de> serde::Deserialize<'de> for ZstDrop {
    fn deserialize<D: serde::Deserializer<'de>>(deserializer: D) -> Result<Self, D::Error> {
        <()>::deserialize(deserializer)?;
        ledger::zst_birth();
        Ok(ZstDrop)
    }
}

/// FNV-1a, 64 bits: stable digest used for distinct-case counting and cross-process
/// comparisons.
pub fn fnv64(bytes: &[u8]) -> u64 {
    let mut h: u64 = 0xcbf2_9ce4_8422_2325;
    for b in bytes {
        h ^= *b as u64;
        h = h.wrapping_mul(0x0000_0100_0000_01b3);
    }
    h
}
