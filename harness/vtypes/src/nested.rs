//! User types in a nested module (C17 grammar).

use crate::Probe;

#[derive(Clone, Copy, Debug, PartialEq, Eq)]
pub struct Gen<T> {
    pub t: T,
    pub tag: u8,
}

impl<T: Probe> Probe for Gen<T> {
    fn make(id: u64) -> Self {
        Gen {
            t: T::make(id),
            tag: 7,
        }
    }
    fn norm(id: u64) -> u64 {
        T::norm(id)
    }
    fn ident(&self) -> u64 {
        self.t.ident()
    }
}

pub mod deeper {
    #[derive(Clone, Copy, Debug, PartialEq, Eq)]
    pub enum Choice {
        A,
        B(u16),
    }
}
