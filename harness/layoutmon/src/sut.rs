//! Adapters that apply a [`History`] to the real builders, request by request.

use std::panic::{catch_unwind, AssertUnwindSafe};

use truc::record::definition::{
    builder::{
        generic::{variant as gvariant, GenericRecordDefinitionBuilder},
        native::{variant as nvariant, DatumDefinitionOverride, NativeRecordDefinitionBuilder},
    },
    DatumId, NativeDatumDetails, RecordDefinition, RecordVariantId,
};
use truc::record::type_resolver::HostTypeResolver;

use crate::hist::{History, Req, Shape, Strat};

/// What the real builder answered to a request.
#[derive(Clone, Debug, PartialEq, Eq)]
pub enum Answer {
    Added(usize),
    Removed,
    Closed(usize),
    Rejected(String),
    Panicked(String),
}

/// Layout facts of one datum as the builder reports them.
#[derive(Clone, Debug, PartialEq, Eq)]
pub struct DatumFacts {
    pub id: usize,
    pub name: String,
    pub offset: usize,
    pub size: usize,
    pub align: usize,
    pub uninit: bool,
    pub type_name: String,
}

pub fn did(id: usize) -> DatumId {
    DatumId::from(id)
}

pub fn vid(id: usize) -> RecordVariantId {
    RecordVariantId::from(id)
}

pub fn id_of(d: DatumId) -> usize {
    // DatumId only exposes Display / Debug
    d.to_string().parse().unwrap()
}

pub fn vid_of(v: RecordVariantId) -> usize {
    v.to_string().parse().unwrap()
}

pub fn panic_text(p: Box<dyn std::any::Any + Send>) -> String {
    if let Some(s) = p.downcast_ref::<String>() {
        s.clone()
    } else if let Some(s) = p.downcast_ref::<&'static str>() {
        (*s).to_owned()
    } else {
        "<non-string panic payload>".to_owned()
    }
}

pub fn shape_type_name(shape: Shape) -> String {
    format!("Sh<{},{}>", shape.size, shape.align)
}

/// Type names under which the shapes are recorded: one name per shape, or coarser namings in
/// which one name stands for several sizes and / or alignments (what stand-in types and
/// overrides produce; such a definition need not compile, but it must still be a function of
/// the history).
pub fn shape_type_name_with(shape: Shape, naming: usize) -> String {
    match naming {
        0 => shape_type_name(shape),
        1 => format!("BySize<{}>", shape.size),
        2 => format!("ByAlign<{}>", shape.align),
        _ => format!("Coarse{}", (shape.size + shape.align) % 3),
    }
}

/// System under test: one of the two builders.
pub trait Sut {
    fn add(&mut self, name: &str, shape: Shape, uninit: bool) -> Answer;
    fn remove(&mut self, id: usize) -> Answer;
    fn close(&mut self, strat: Strat) -> Answer;
    fn current(&self) -> Vec<usize>;
    /// Data of a closed variant, in list order. `None` if the builder has no such variant.
    fn variant(&self, v: usize) -> Option<Vec<usize>>;
    fn name_of(&self, id: usize) -> Option<String>;
    fn current_by_name(&self, name: &str) -> Option<usize>;
    fn variant_by_name(&self, v: usize, name: &str) -> Option<usize>;
    /// Native only.
    fn facts(&self, id: usize) -> Option<DatumFacts>;
}

pub struct NativeSut {
    pub builder: NativeRecordDefinitionBuilder<HostTypeResolver>,
    /// Number of variants created so far (known from close answers).
    pub nvariants: usize,
    pub ndata: usize,
    /// see `shape_type_name_with`
    pub naming: usize,
}

impl NativeSut {
    pub fn new() -> Self {
        NativeSut {
            builder: NativeRecordDefinitionBuilder::new(HostTypeResolver),
            nvariants: 0,
            ndata: 0,
            naming: 0,
        }
    }

    pub fn build(self) -> Result<RecordDefinition<NativeDatumDetails>, String> {
        catch_unwind(AssertUnwindSafe(move || self.builder.build())).map_err(panic_text)
    }
}

impl Sut for NativeSut {
    fn add(&mut self, name: &str, shape: Shape, uninit: bool) -> Answer {
        let r = catch_unwind(AssertUnwindSafe(|| {
            self.builder.add_datum_override::<(), _>(
                name,
                DatumDefinitionOverride {
                    type_name: Some(shape_type_name_with(shape, self.naming)),
                    size: Some(shape.size),
                    align: Some(shape.align),
                    allow_uninit: Some(uninit),
                },
            )
        }));
        match r {
            Ok(Ok(id)) => {
                let id = id_of(id);
                self.ndata = self.ndata.max(id + 1);
                Answer::Added(id)
            }
            Ok(Err(e)) => Answer::Rejected(e),
            Err(p) => Answer::Panicked(panic_text(p)),
        }
    }

    fn remove(&mut self, id: usize) -> Answer {
        match catch_unwind(AssertUnwindSafe(|| self.builder.remove_datum(did(id)))) {
            Ok(Ok(())) => Answer::Removed,
            Ok(Err(e)) => Answer::Rejected(e),
            Err(p) => Answer::Panicked(panic_text(p)),
        }
    }

    fn close(&mut self, strat: Strat) -> Answer {
        let r = catch_unwind(AssertUnwindSafe(|| match strat {
            // the convenience form closes with the default strategy of the builder: every other
            // `simple` request goes through it (no monitor depends on which strategy it picks)
            Strat::Simple if self.nvariants % 2 == 1 => self.builder.close_record_variant(),
            Strat::Simple => self.builder.close_record_variant_with(nvariant::simple),
            Strat::Basic => self.builder.close_record_variant_with(nvariant::basic),
            Strat::Append => self.builder.close_record_variant_with(nvariant::append_data),
            Strat::AppendRev => self
                .builder
                .close_record_variant_with(nvariant::append_data_reverse),
        }));
        match r {
            Ok(v) => {
                let v = vid_of(v);
                self.nvariants = self.nvariants.max(v + 1);
                Answer::Closed(v)
            }
            Err(p) => Answer::Panicked(panic_text(p)),
        }
    }

    fn current(&self) -> Vec<usize> {
        self.builder.get_current_data().map(id_of).collect()
    }

    fn variant(&self, v: usize) -> Option<Vec<usize>> {
        if v < self.nvariants {
            Some(self.builder[vid(v)].data().map(id_of).collect())
        } else {
            None
        }
    }

    fn name_of(&self, id: usize) -> Option<String> {
        if id < self.ndata {
            Some(self.builder[did(id)].name().to_owned())
        } else {
            None
        }
    }

    fn current_by_name(&self, name: &str) -> Option<usize> {
        self.builder
            .get_current_datum_definition_by_name(name)
            .map(|d| id_of(d.id()))
    }

    fn variant_by_name(&self, v: usize, name: &str) -> Option<usize> {
        self.builder
            .get_variant_datum_definition_by_name(vid(v), name)
            .map(|d| id_of(d.id()))
    }

    fn facts(&self, id: usize) -> Option<DatumFacts> {
        if id < self.ndata {
            let d = &self.builder[did(id)];
            Some(DatumFacts {
                id,
                name: d.name().to_owned(),
                offset: d.details().offset(),
                size: d.details().size(),
                align: d.details().type_align(),
                uninit: d.details().allow_uninit(),
                type_name: d.details().type_name().to_owned(),
            })
        } else {
            None
        }
    }
}

pub struct GenericSut {
    pub builder: GenericRecordDefinitionBuilder<()>,
}

impl GenericSut {
    pub fn new() -> Self {
        GenericSut {
            builder: GenericRecordDefinitionBuilder::new(),
        }
    }

    pub fn build(self) -> Result<RecordDefinition<()>, String> {
        catch_unwind(AssertUnwindSafe(move || self.builder.build())).map_err(panic_text)
    }
}

impl Sut for GenericSut {
    fn add(&mut self, name: &str, _shape: Shape, _uninit: bool) -> Answer {
        match catch_unwind(AssertUnwindSafe(|| self.builder.add_datum(name, ()))) {
            Ok(Ok(id)) => Answer::Added(id_of(id)),
            Ok(Err(e)) => Answer::Rejected(e),
            Err(p) => Answer::Panicked(panic_text(p)),
        }
    }

    fn remove(&mut self, id: usize) -> Answer {
        match catch_unwind(AssertUnwindSafe(|| self.builder.remove_datum(did(id)))) {
            Ok(Ok(())) => Answer::Removed,
            Ok(Err(e)) => Answer::Rejected(e),
            Err(p) => Answer::Panicked(panic_text(p)),
        }
    }

    fn close(&mut self, strat: Strat) -> Answer {
        let r = catch_unwind(AssertUnwindSafe(|| match strat {
            Strat::Simple | Strat::Append => self
                .builder
                .close_record_variant_with(gvariant::append_data::<()>),
            Strat::Basic | Strat::AppendRev => self
                .builder
                .close_record_variant_with(gvariant::append_data_reverse::<()>),
        }));
        match r {
            Ok(v) => Answer::Closed(vid_of(v)),
            Err(p) => Answer::Panicked(panic_text(p)),
        }
    }

    fn current(&self) -> Vec<usize> {
        self.builder.get_current_data().map(id_of).collect()
    }

    fn variant(&self, v: usize) -> Option<Vec<usize>> {
        self.builder
            .get_variant(vid(v))
            .map(|variant| variant.data().map(id_of).collect())
    }

    fn name_of(&self, id: usize) -> Option<String> {
        self.builder
            .get_datum_definition(did(id))
            .map(|d| d.name().to_owned())
    }

    fn current_by_name(&self, name: &str) -> Option<usize> {
        self.builder
            .get_current_datum_definition_by_name(name)
            .map(|d| id_of(d.id()))
    }

    fn variant_by_name(&self, v: usize, name: &str) -> Option<usize> {
        self.builder
            .get_variant_datum_definition_by_name(vid(v), name)
            .map(|d| id_of(d.id()))
    }

    fn facts(&self, _id: usize) -> Option<DatumFacts> {
        None
    }
}

/// Applies one request. `issued` maps the k-th successful add to its identifier.
pub fn apply<S: Sut>(sut: &mut S, hist: &History, req: &Req, issued: &mut Vec<usize>) -> Answer {
    match req {
        Req::Add {
            name,
            shape,
            uninit,
        } => {
            let a = sut.add(&hist.name_of(*name), *shape, *uninit);
            if let Answer::Added(id) = &a {
                issued.push(*id);
            }
            a
        }
        Req::Remove { k } => match issued.get(*k) {
            Some(id) => sut.remove(*id),
            // the add this request refers to was rejected by the real builder although the
            // model accepted it: already reported as a divergence at that point
            None => Answer::Rejected("<no such issued id>".to_owned()),
        },
        Req::RemoveRaw { id } => sut.remove(*id),
        Req::Close { strat } => sut.close(*strat),
    }
}

/// Replays a *valid* history on a fresh native builder and builds the definition.
pub fn build_native(hist: &History) -> Result<RecordDefinition<NativeDatumDetails>, String> {
    build_native_named(hist, 0)
}

pub fn build_native_named(hist: &History, naming: usize) -> Result<RecordDefinition<NativeDatumDetails>, String> {
    let mut sut = NativeSut::new();
    sut.naming = naming;
    let mut issued = Vec::new();
    for req in &hist.reqs {
        match apply(&mut sut, hist, req, &mut issued) {
            Answer::Panicked(p) => return Err(format!("panic: {}", p)),
            Answer::Rejected(e) => return Err(format!("rejected: {}", e)),
            _ => {}
        }
    }
    sut.build()
}
