//! Builder histories: representation, reference model, seeded and directed generators.

use std::collections::BTreeSet;
use std::fmt::Write as _;

use serde::{Deserialize, Serialize};
use vtypes::Rng;

/// (size, alignment) of a datum.
#[derive(Clone, Copy, Debug, PartialEq, Eq, PartialOrd, Ord, Hash, Serialize, Deserialize)]
pub struct Shape {
    pub size: usize,
    pub align: usize,
}

pub const fn sh(size: usize, align: usize) -> Shape {
    Shape { size, align }
}

/// The four shipped closing strategies.
#[derive(Clone, Copy, Debug, PartialEq, Eq, PartialOrd, Ord, Hash, Serialize, Deserialize)]
pub enum Strat {
    Simple,
    Basic,
    Append,
    AppendRev,
}

pub const STRATS: [Strat; 4] = [Strat::Simple, Strat::Basic, Strat::Append, Strat::AppendRev];

impl Strat {
    pub fn tag(self) -> &'static str {
        match self {
            Strat::Simple => "simple",
            Strat::Basic => "basic",
            Strat::Append => "append",
            Strat::AppendRev => "append_rev",
        }
    }
}

/// One builder request.
#[derive(Clone, Debug, PartialEq, Eq, Hash, Serialize, Deserialize)]
pub enum Req {
    /// Add a datum. `name` is an index in the name pool (or a unique counter, see `History::unique_names`).
    Add {
        name: usize,
        shape: Shape,
        uninit: bool,
    },
    /// Remove the datum returned by the `k`-th *successful* add of this history.
    Remove { k: usize },
    /// Remove a raw identifier (possibly never issued).
    RemoveRaw { id: usize },
    /// Close the variant.
    Close { strat: Strat },
}

#[derive(Clone, Debug, PartialEq, Eq, Hash, Serialize, Deserialize)]
pub struct History {
    pub reqs: Vec<Req>,
    /// Whether names are `d<name>` (unique) or drawn from the clash pool `n<name>`.
    pub unique_names: bool,
    /// Free text: which generator produced it.
    pub origin: String,
}

impl History {
    pub fn name_of(&self, name: usize) -> String {
        if self.unique_names {
            format!("d{}", name)
        } else {
            format!("n{}", name)
        }
    }

    /// Compact canonical text (used for digests, samples and replay files).
    pub fn text(&self) -> String {
        let mut s = String::new();
        for r in &self.reqs {
            match r {
                Req::Add {
                    name,
                    shape,
                    uninit,
                } => {
                    let _ = write!(
                        s,
                        "add {} {}/{}{}; ",
                        self.name_of(*name),
                        shape.size,
                        shape.align,
                        if *uninit { "u" } else { "" }
                    );
                }
                Req::Remove { k } => {
                    let _ = write!(s, "rm #{}; ", k);
                }
                Req::RemoveRaw { id } => {
                    let _ = write!(s, "rmraw {}; ", id);
                }
                Req::Close { strat } => {
                    let _ = write!(s, "close[{}]; ", strat.tag());
                }
            }
        }
        s
    }

    pub fn digest(&self) -> u64 {
        vtypes::fnv64(self.text().as_bytes())
    }

    pub fn closes(&self) -> usize {
        self.reqs
            .iter()
            .filter(|r| matches!(r, Req::Close { .. }))
            .count()
    }
}

/// Outcome class of a request, as the reference model predicts it.
#[derive(Clone, Copy, Debug, PartialEq, Eq)]
pub enum Outcome {
    /// Add accepted, identifier returned.
    Added(usize),
    /// Remove accepted.
    Removed,
    /// Close returned this variant identifier; `new` tells whether a variant was created.
    Closed { variant: usize, new: bool },
    /// The request must be rejected.
    Rejected,
}

/// Executable reference model of the builder (sets + pending lists + names).
#[derive(Clone, Debug, Default, PartialEq, Eq)]
pub struct Model {
    pub names: Vec<String>,
    pub variants: Vec<BTreeSet<usize>>,
    pub to_add: Vec<usize>,
    pub to_remove: Vec<usize>,
}

impl Model {
    pub fn current(&self) -> BTreeSet<usize> {
        let mut cur: BTreeSet<usize> = self.variants.last().cloned().unwrap_or_default();
        for r in &self.to_remove {
            cur.remove(r);
        }
        for a in &self.to_add {
            cur.insert(*a);
        }
        cur
    }

    pub fn add(&mut self, name: &str) -> Outcome {
        if self.current().iter().any(|d| self.names[*d] == name) {
            return Outcome::Rejected;
        }
        let id = self.names.len();
        self.names.push(name.to_owned());
        self.to_add.push(id);
        Outcome::Added(id)
    }

    pub fn remove(&mut self, id: usize) -> Outcome {
        let in_last = self.variants.last().map_or(false, |v| v.contains(&id));
        if in_last {
            if self.to_remove.contains(&id) {
                Outcome::Rejected
            } else {
                self.to_remove.push(id);
                Outcome::Removed
            }
        } else if let Some(pos) = self.to_add.iter().position(|d| *d == id) {
            self.to_add.remove(pos);
            Outcome::Removed
        } else {
            Outcome::Rejected
        }
    }

    pub fn pending(&self) -> bool {
        !self.to_add.is_empty() || !self.to_remove.is_empty()
    }

    pub fn close(&mut self) -> Outcome {
        if !self.variants.is_empty() && !self.pending() {
            return Outcome::Closed {
                variant: self.variants.len() - 1,
                new: false,
            };
        }
        let cur = self.current();
        self.variants.push(cur);
        self.to_add.clear();
        self.to_remove.clear();
        Outcome::Closed {
            variant: self.variants.len() - 1,
            new: true,
        }
    }

    /// Name lookup in a set of data.
    pub fn by_name(&self, data: &BTreeSet<usize>, name: &str) -> Option<usize> {
        data.iter().copied().find(|d| self.names[*d] == name)
    }
}

pub const ALPHA_INTS: &[Shape] = &[sh(1, 1), sh(2, 2), sh(4, 4), sh(8, 8), sh(16, 16)];

pub const ALPHA_REALISTIC: &[Shape] = &[
    sh(0, 1),
    sh(0, 4),
    sh(0, 8),
    sh(0, 16),
    sh(1, 1),
    sh(2, 2),
    sh(4, 4),
    sh(8, 8),
    sh(16, 16),
    sh(3, 1),
    sh(5, 1),
    sh(6, 2),
    sh(12, 4),
    sh(24, 8),
    sh(16, 8),
    sh(32, 16),
    sh(40, 8),
    sh(2, 1),
    sh(4, 2),
    sh(8, 4),
    sh(16, 4),
    sh(48, 8),
];

fn arbitrary_shape(rng: &mut Rng) -> Shape {
    let align = 1usize << rng.below(5);
    let size = if rng.chance(1, 8) { 0 } else { rng.range(1, 40) };
    sh(size, align)
}

#[derive(Clone, Copy, Debug, PartialEq, Eq)]
pub enum Alphabet {
    Ints,
    Realistic,
    Arbitrary,
    Mixed,
}

fn draw_shape(rng: &mut Rng, alpha: Alphabet) -> Shape {
    match alpha {
        Alphabet::Ints => *rng.pick(ALPHA_INTS),
        Alphabet::Realistic => *rng.pick(ALPHA_REALISTIC),
        Alphabet::Arbitrary => arbitrary_shape(rng),
        Alphabet::Mixed => match rng.below(3) {
            0 => *rng.pick(ALPHA_INTS),
            1 => *rng.pick(ALPHA_REALISTIC),
            _ => arbitrary_shape(rng),
        },
    }
}

/// Seeded generator of *valid* layout histories (every request is accepted), ending with a
/// close so that the definition can be built.
pub fn gen_layout_history(rng: &mut Rng) -> History {
    let alpha = match rng.below(8) {
        0 | 1 => Alphabet::Ints,
        2 | 3 | 4 => Alphabet::Realistic,
        5 | 6 => Alphabet::Arbitrary,
        _ => Alphabet::Mixed,
    };
    let nvariants = match rng.below(50) {
        0..=4 => 1,
        5..=14 => 2,
        15..=29 => rng.range(3, 4),
        30..=43 => rng.range(5, 7),
        44..=48 => rng.range(8, 10),
        // long histories: hundreds of datum identifiers, two-digit variant numbers
        _ => rng.range(15, 40),
    };
    // big data now and then: offsets and sizes beyond 255 / 256 / 1024 / 4096
    let big_num = *rng.pick(&[0usize, 0, 0, 0, 0, 0, 0, 1, 1, 3]); // out of 10
    let uniform_strat = if rng.chance(1, 2) {
        Some(*rng.pick(&STRATS))
    } else {
        None
    };
    let removal_num = *rng.pick(&[0usize, 1, 1, 3, 3, 6]); // out of 10
    let max_adds = *rng.pick(&[2usize, 4, 8, 8]);
    let orphan_num = *rng.pick(&[0usize, 0, 1, 2]); // out of 10
    let zst_boost = rng.chance(1, 6);
    let bulk = rng.chance(1, 25);

    let mut model = Model::default();
    let mut reqs = Vec::new();
    let mut issued: Vec<usize> = Vec::new(); // k -> id
    let mut next_name = 0usize;

    for v in 0..nvariants {
        // removals of live data
        let mut pending_ops: Vec<Req> = Vec::new();
        let live: Vec<usize> = model.variants.last().cloned().unwrap_or_default().into_iter().collect();
        for id in live {
            if rng.below(10) < removal_num {
                let k = issued.iter().position(|d| *d == id).unwrap();
                pending_ops.push(Req::Remove { k });
            }
        }
        let nadds = if bulk && rng.chance(1, 3) {
            // a bulk step: dozens of data added at once
            rng.range(33, 80)
        } else if v == 0 && rng.chance(9, 10) {
            rng.range(1, max_adds)
        } else {
            rng.range(0, max_adds)
        };
        for _ in 0..nadds {
            let mut shape = draw_shape(rng, alpha);
            if zst_boost && rng.chance(1, 3) {
                shape = sh(0, 1 << rng.below(5));
            }
            if rng.below(10) < big_num {
                let size = *rng.pick(&[255usize, 256, 257, 320, 1000, 1024, 4095, 4096, 4100, 65535, 65536, 70000, 1 << 24, (1 << 32) + 8]);
                shape = sh(size, 1 << rng.below(5));
            }
            pending_ops.push(Req::Add {
                name: usize::MAX, // assigned below
                shape,
                uninit: rng.chance(1, 3),
            });
        }
        rng.shuffle(&mut pending_ops);
        for op in pending_ops {
            match op {
                Req::Add { shape, uninit, .. } => {
                    let name = next_name;
                    next_name += 1;
                    match model.add(&format!("d{}", name)) {
                        Outcome::Added(id) => issued.push(id),
                        other => unreachable!("{:?}", other),
                    }
                    reqs.push(Req::Add {
                        name,
                        shape,
                        uninit,
                    });
                    // orphan: remove again before the close
                    if rng.below(10) < orphan_num {
                        let k = issued.len() - 1;
                        assert_eq!(model.remove(issued[k]), Outcome::Removed);
                        reqs.push(Req::Remove { k });
                    }
                }
                Req::Remove { k } => {
                    assert_eq!(model.remove(issued[k]), Outcome::Removed);
                    reqs.push(Req::Remove { k });
                }
                _ => unreachable!(),
            }
        }
        let strat = uniform_strat.unwrap_or_else(|| *rng.pick(&STRATS));
        model.close();
        reqs.push(Req::Close { strat });
    }
    History {
        reqs,
        unique_names: true,
        origin: "random-layout".to_owned(),
    }
}

/// Seeded generator of *hostile* histories: clashing names, removals of live / pending / stale
/// / never-issued / already-removed identifiers, repeated closes. May end with pending changes.
pub fn gen_hostile_history(rng: &mut Rng) -> History {
    let nreqs = rng.range(1, 40);
    let pool = rng.range(2, 6);
    let uniform_strat = if rng.chance(1, 2) {
        Some(*rng.pick(&STRATS))
    } else {
        None
    };
    let mut model = Model::default();
    let mut issued: Vec<usize> = Vec::new();
    let mut reqs = Vec::new();
    for _ in 0..nreqs {
        match rng.below(10) {
            0..=3 => {
                let name = rng.below(pool);
                let shape = draw_shape(rng, Alphabet::Mixed);
                if let Outcome::Added(id) = model.add(&format!("n{}", name)) {
                    issued.push(id);
                }
                reqs.push(Req::Add {
                    name,
                    shape,
                    uninit: rng.chance(1, 3),
                });
            }
            4..=6 => {
                if !issued.is_empty() && rng.chance(7, 8) {
                    // bias towards interesting targets
                    let k = match rng.below(4) {
                        0 => issued.len() - 1,
                        _ => rng.below(issued.len()),
                    };
                    model.remove(issued[k]);
                    reqs.push(Req::Remove { k });
                } else {
                    let id = issued.len() + rng.below(3);
                    model.remove(id);
                    reqs.push(Req::RemoveRaw { id });
                }
            }
            _ => {
                let strat = uniform_strat.unwrap_or_else(|| *rng.pick(&STRATS));
                model.close();
                reqs.push(Req::Close { strat });
                if rng.chance(1, 5) {
                    // repeated close
                    model.close();
                    reqs.push(Req::Close { strat });
                }
            }
        }
    }
    History {
        reqs,
        unique_names: false,
        origin: "random-hostile".to_owned(),
    }
}

fn add(name: usize, size: usize, align: usize) -> Req {
    Req::Add {
        name,
        shape: sh(size, align),
        uninit: false,
    }
}

fn addu(name: usize, size: usize, align: usize) -> Req {
    Req::Add {
        name,
        shape: sh(size, align),
        uninit: true,
    }
}

fn rm(k: usize) -> Req {
    Req::Remove { k }
}

fn close(strat: Strat) -> Req {
    Req::Close { strat }
}

/// Shape-directed histories that every run includes regardless of the seed.
pub fn directed_histories() -> Vec<History> {
    let mut out = Vec::new();
    let mut push = |origin: &str, reqs: Vec<Req>| {
        out.push(History {
            reqs,
            unique_names: true,
            origin: format!("directed:{}", origin),
        })
    };
    use Strat::*;
    for s in STRATS {
        // add-then-remove-before-close (orphan)
        push("orphan-only", vec![add(0, 1, 1), rm(0), close(s)]);
        push(
            "orphan-among",
            vec![add(0, 4, 4), add(1, 8, 8), rm(1), add(2, 2, 2), close(s), add(3, 0, 8), rm(3), close(s), add(4, 1, 1), close(s)],
        );
        // empty first variant
        push("empty-first", vec![close(s), add(0, 8, 8), add(1, 1, 1), close(s)]);
        push("empty-only", vec![close(s)]);
        // variant made only of removals
        push(
            "removal-only",
            vec![add(0, 4, 4), add(1, 2, 2), add(2, 8, 8), close(s), rm(1), close(s), rm(0), rm(2), close(s)],
        );
        // only may-be-uninit fields
        push(
            "uninit-only",
            vec![addu(0, 4, 4), addu(1, 1, 1), addu(2, 8, 8), close(s), rm(0), addu(3, 2, 2), close(s)],
        );
        // remove + add of the same shape in one variant (byte reuse)
        push(
            "byte-reuse",
            vec![add(0, 8, 8), add(1, 24, 8), add(2, 4, 4), close(s), rm(1), add(3, 24, 8), close(s), rm(3), add(4, 16, 8), add(5, 8, 8), close(s)],
        );
        // same name cannot be expressed with unique names: see hostile directed below
        // ten variants
        let mut reqs = Vec::new();
        for v in 0..10 {
            reqs.push(add(v * 2, 1 + v, 1 << (v % 5)));
            reqs.push(addu(v * 2 + 1, 8, 8));
            if v > 0 {
                reqs.push(rm((v - 1) * 2));
            }
            reqs.push(close(s));
        }
        push("ten-variants", reqs);
        // zero-size data inside / at the end of a gap, followed by each strategy
        for s2 in STRATS {
            for s3 in STRATS {
                push(
                    "zst-in-gap",
                    vec![add(0, 6, 2), add(1, 0, 1), add(2, 4, 4), close(s), add(3, 1, 1), close(s2), add(4, 2, 2), add(5, 0, 8), close(s3)],
                );
                push(
                    "zst-end-of-gap",
                    vec![add(0, 24, 8), add(1, 6, 2), rm(1), add(2, 0, 8), close(s), add(3, 16, 16), add(4, 16, 16), close(s2), rm(0), add(5, 3, 1), add(6, 0, 8), add(7, 2, 2), close(s3), add(8, 5, 1), add(9, 12, 4), close(s)],
                );
                push(
                    "odd-sizes-handover",
                    vec![add(0, 3, 1), add(1, 8, 8), add(2, 5, 1), add(3, 12, 4), close(s), rm(1), add(4, 2, 2), add(5, 7, 1), close(s2), rm(3), add(6, 16, 16), add(7, 1, 1), add(8, 6, 2), close(s3)],
                );
            }
        }
    }
    // offsets beyond 64 KiB and beyond 4 GiB, with holes up there
    for s in STRATS {
        push(
            "huge-offsets",
            vec![add(0, 65536, 1), add(1, 8, 8), add(2, 4, 4), add(3, 2, 2), close(s), rm(1), add(4, 8, 8), add(5, 2, 2), close(s), add(6, (1 << 32) + 3, 1), add(7, 8, 8), add(8, 1, 1), close(s), rm(7), add(9, 4, 4), add(10, 4, 2), close(Simple)],
        );
    }
    // many separate gaps at once (more than 16, 32), then several additions
    for s in STRATS {
        let mut reqs = Vec::new();
        for i in 0..72 {
            reqs.push(add(i, if i % 2 == 0 { 4 } else { 2 + (i % 3) * 3 }, if i % 2 == 0 { 4 } else { 1 }));
        }
        reqs.push(close(s));
        for i in (1..72).step_by(2) {
            reqs.push(rm(i));
        }
        for j in 0..6 {
            reqs.push(add(100 + j, [4, 3, 8, 2, 5, 1][j], [4, 1, 8, 2, 1, 1][j]));
        }
        reqs.push(close(s));
        reqs.push(rm(0));
        reqs.push(rm(2));
        reqs.push(add(200, 12, 4));
        reqs.push(add(201, 6, 2));
        reqs.push(close(Simple));
        push("many-gaps", reqs);
    }
    // the witnesses of the repaired defects (D1, D2, D3)
    push(
        "witness-D1",
        vec![add(0, 24, 8), add(1, 6, 2), rm(1), add(2, 0, 8), close(Basic), add(3, 16, 16), add(4, 16, 16), close(Basic), rm(0), add(5, 3, 1), add(6, 0, 8), add(7, 2, 2), close(Simple), add(8, 4, 4), add(9, 8, 8), close(Basic)],
    );
    push(
        "witness-D2",
        vec![add(0, 6, 2), add(1, 0, 1), add(2, 4, 4), close(Simple), add(3, 1, 1), close(Simple)],
    );
    push("witness-D3", vec![add(0, 1, 1), rm(0), close(Simple)]);
    out
}

/// Directed hostile histories (name pool, invalid requests).
pub fn directed_hostile_histories() -> Vec<History> {
    let mut out = Vec::new();
    let mut push = |origin: &str, reqs: Vec<Req>| {
        out.push(History {
            reqs,
            unique_names: false,
            origin: format!("directed:{}", origin),
        })
    };
    for s in STRATS {
        // same name re-added after removal (pending), then once more (must clash)
        push(
            "readd-after-pending-removal",
            vec![add(0, 4, 4), close(s), rm(0), add(0, 8, 8), add(0, 2, 2), close(s), add(0, 1, 1), close(s)],
        );
        // remove twice
        push("remove-twice", vec![add(0, 4, 4), add(1, 1, 1), close(s), rm(0), rm(0), close(s), rm(0), close(s)]);
        // remove pending, then stale
        push("remove-pending-then-stale", vec![add(0, 4, 4), rm(0), rm(0), add(0, 2, 2), close(s), rm(0), rm(1), close(s)]);
        // never issued
        push("remove-unknown", vec![Req::RemoveRaw { id: 0 }, add(0, 1, 1), Req::RemoveRaw { id: 1 }, Req::RemoveRaw { id: 7 }, close(s), Req::RemoveRaw { id: 3 }]);
        // repeated close
        push("repeated-close", vec![close(s), close(s), add(0, 1, 1), close(s), close(s), close(s)]);
        // cancelled pending datum, then further adds: identifiers must not be reused
        push("cancel-then-add", vec![add(0, 4, 4), rm(0), add(1, 2, 2), rm(0), close(s), add(2, 8, 8), rm(2), add(3, 1, 1), rm(2), close(s)]);
        // more than 64 (and more than 128) data in one variant: removals and name clashes at high positions
        // (the wider one for one strategy only: every request is followed by a full observation)
        let n = if s == Strat::Append { 140 } else { 70 };
        let mut reqs = Vec::new();
        for i in 0..n {
            reqs.push(add(i, 1 + i % 7, 1 << (i % 4)));
        }
        reqs.push(close(s));
        reqs.push(rm(66));
        reqs.push(add(2, 4, 4)); // n2 is alive: must clash
        reqs.push(rm(2));
        reqs.push(add(2, 4, 4)); // now free
        reqs.push(rm(n - 3));
        reqs.push(rm(n - 3)); // twice
        reqs.push(add(66, 2, 2)); // free again
        reqs.push(add(67, 2, 2)); // alive: must clash
        reqs.push(close(s));
        reqs.push(rm(64));
        reqs.push(rm(n - 1));
        reqs.push(add(64, 8, 8));
        reqs.push(close(s));
        push("more-than-64-data", reqs);
        // unclosed at the end
        push("unclosed-add", vec![add(0, 4, 4), close(s), add(1, 2, 2)]);
        push("unclosed-remove", vec![add(0, 4, 4), close(s), rm(0)]);
        push("never-closed", vec![add(0, 4, 4)]);
        push("nothing", vec![]);
    }
    out
}

/// Small-scope sweep: all histories over a shape alphabet with at most `max_variants` variants,
/// at most `max_adds` adds per variant, every removal subset of the live data and every
/// per-variant strategy. Calls `f` for each; returns the number enumerated. `shard`/`nshards`
/// split on the first variant's choices.
pub fn sweep<F: FnMut(&History)>(
    alphabet: &[Shape],
    max_variants: usize,
    max_adds: usize,
    shard: usize,
    nshards: usize,
    f: &mut F,
) -> u64 {
    fn rec<F: FnMut(&History)>(
        alphabet: &[Shape],
        max_variants: usize,
        max_adds: usize,
        reqs: &mut Vec<Req>,
        live: &mut Vec<usize>, // k of live data
        issued: usize,
        variant: usize,
        counter: &mut u64,
        top: &mut u64,
        shard: usize,
        nshards: usize,
        f: &mut F,
    ) {
        if variant > 0 {
            *counter += 1;
            f(&History {
                reqs: reqs.clone(),
                unique_names: true,
                origin: "sweep".to_owned(),
            });
        }
        if variant == max_variants {
            return;
        }
        // every removal subset of live data
        let nlive = live.len();
        for mask in 0..(1u32 << nlive) {
            // every multiset-free sequence of adds of length 0..=max_adds
            let mut add_seqs: Vec<Vec<Shape>> = vec![vec![]];
            let mut frontier: Vec<Vec<Shape>> = vec![vec![]];
            for _ in 0..max_adds {
                let mut next = Vec::new();
                for seq in &frontier {
                    for s in alphabet {
                        let mut n = seq.clone();
                        n.push(*s);
                        next.push(n);
                    }
                }
                add_seqs.extend(next.iter().cloned());
                frontier = next;
            }
            for adds in &add_seqs {
                if mask == 0 && adds.is_empty() && variant > 0 {
                    continue; // no pending change: close would create nothing
                }
                for strat in STRATS {
                    if variant == 0 {
                        *top += 1;
                        if (*top as usize) % nshards != shard {
                            continue;
                        }
                    }
                    let base_len = reqs.len();
                    let saved_live = live.clone();
                    let mut new_live: Vec<usize> = Vec::new();
                    for (i, k) in saved_live.iter().enumerate() {
                        if mask & (1 << i) != 0 {
                            reqs.push(Req::Remove { k: *k });
                        } else {
                            new_live.push(*k);
                        }
                    }
                    let mut n_issued = issued;
                    for s in adds {
                        reqs.push(Req::Add {
                            name: n_issued,
                            shape: *s,
                            uninit: false,
                        });
                        new_live.push(n_issued);
                        n_issued += 1;
                    }
                    reqs.push(Req::Close { strat });
                    *live = new_live;
                    rec(
                        alphabet,
                        max_variants,
                        max_adds,
                        reqs,
                        live,
                        n_issued,
                        variant + 1,
                        counter,
                        top,
                        shard,
                        nshards,
                        f,
                    );
                    *live = saved_live;
                    reqs.truncate(base_len);
                }
            }
        }
    }
    let mut counter = 0;
    let mut top = 0;
    rec(
        alphabet,
        max_variants,
        max_adds,
        &mut Vec::new(),
        &mut Vec::new(),
        0,
        0,
        &mut counter,
        &mut top,
        shard,
        nshards,
        f,
    );
    counter
}
