//! Emitter for engines B and D (filled in later).
use crate::Args;
pub fn mode(_args: &Args) {
    unimplemented!()
}
