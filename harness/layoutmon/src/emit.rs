//! Emitter for engine B: samples definitions over the `vtypes` palette (typed entry points,
//! `HostTypeResolver`), writes the untouched `generate()` output of each (`mK.rs`), a generated
//! driver (`dK.rs`) implementing `drvlib::Drv`, and the crate around them.

use std::collections::BTreeMap;
use std::fmt::Write as _;
use std::mem::MaybeUninit;

use truc::generator::generate;
use truc::record::definition::{
    builder::native::{variant as nvariant, DatumDefinitionOverride, NativeRecordDefinitionBuilder},
    DatumId, NativeDatumDetails, RecordDefinition,
};
use truc::record::type_resolver::HostTypeResolver;
use vtypes::Rng;

use crate::hist::{Strat, STRATS};
use crate::monitors::{config_extra, config_for_alt, EXTRA_FRAGSETS, FRAGSETS};
use crate::sut::id_of;
use crate::Args;

#[derive(Clone, Copy)]
pub struct Pal {
    pub expr: &'static str,
    pub copy: bool,
    pub droppable: bool,
    pub serde: bool,
    pub zst_drop: bool,
    pub may_stay_unwritten: bool,
    pub tracked: usize,
}

const fn pal(expr: &'static str, copy: bool, droppable: bool, serde: bool, tracked: usize) -> Pal {
    Pal {
        expr,
        copy,
        droppable,
        serde,
        zst_drop: false,
        may_stay_unwritten: false,
        tracked,
    }
}

pub const PALETTE: &[Pal] = &[
    pal("u8", true, false, true, 0),                     // 0
    pal("u16", true, false, true, 0),                    // 1
    pal("u32", true, false, true, 0),                    // 2
    pal("u64", true, false, true, 0),                    // 3
    pal("u128", true, false, true, 0),                   // 4
    pal("[u8; 3]", true, false, true, 0),                // 5
    pal("[u16; 3]", true, false, true, 0),               // 6
    pal("[u32; 3]", true, false, true, 0),               // 7
    pal("[u64; 3]", true, false, true, 0),               // 8
    pal("f64", true, false, true, 0),                    // 9
    pal("char", true, false, true, 0),                   // 10
    pal("bool", true, false, true, 0),                   // 11
    pal("vtypes::A16", true, false, true, 0),            // 12
    pal("vtypes::A32", true, false, true, 0),            // 13
    Pal { expr: "std::mem::MaybeUninit<u64>", copy: true, droppable: false, serde: false, zst_drop: false, may_stay_unwritten: true, tracked: 0 }, // 14
    pal("String", false, true, true, 0),                 // 15
    pal("Vec<u32>", false, true, true, 0),               // 16
    pal("Box<str>", false, true, true, 0),               // 17
    pal("Option<Box<u64>>", false, true, true, 0),       // 18
    pal("vtypes::Tracked", false, true, true, 1),        // 19
    pal("[vtypes::Tracked; 2]", false, true, true, 2),   // 20
    pal("vtypes::TrackedBig", false, true, true, 1),     // 21
    pal("vtypes::Tracked12", false, true, true, 1),      // 22
    pal("()", true, false, true, 0),                     // 23
    pal("[u64; 0]", true, false, true, 0),               // 24
    Pal { expr: "vtypes::ZstDrop", copy: false, droppable: true, serde: true, zst_drop: true, may_stay_unwritten: false, tracked: 0 }, // 25
    pal("vtypes::S12", true, false, true, 0),            // 26
    pal("vtypes::S6", true, false, true, 0),             // 27
    pal("[u8; 5]", true, false, true, 0),                // 28
    pal("[u8; 7]", true, false, true, 0),                // 29
    pal("Option<u32>", true, false, true, 0),            // 30
    pal("[u64; 40]", true, false, false, 0),             // 31 (320 bytes; serde has no impl for arrays above 32)
    pal("vtypes::TrackedHuge", false, true, true, 1),    // 32 (1304 bytes, droppable)
];

type Builder = NativeRecordDefinitionBuilder<HostTypeResolver>;

fn add_t<T>(b: &mut Builder, name: &str) -> Result<DatumId, String> {
    b.add_datum::<T, _>(name)
}

fn add_u<T: Copy>(b: &mut Builder, name: &str) -> Result<DatumId, String> {
    b.add_datum_allow_uninit::<T, _>(name)
}

fn add_pal(b: &mut Builder, p: usize, uninit: bool, name: &str) -> Result<DatumId, String> {
    use vtypes::*;
    if p == 14 {
        // `core::mem::maybe_uninit` is a private module: the recorded name would not be nameable
        return b.add_datum_override::<MaybeUninit<u64>, _>(
            name,
            DatumDefinitionOverride {
                type_name: Some("std::mem::MaybeUninit<u64>".to_owned()),
                size: None,
                align: None,
                allow_uninit: Some(uninit),
            },
        );
    }
    if uninit {
        match p {
            0 => add_u::<u8>(b, name),
            1 => add_u::<u16>(b, name),
            2 => add_u::<u32>(b, name),
            3 => add_u::<u64>(b, name),
            4 => add_u::<u128>(b, name),
            5 => add_u::<[u8; 3]>(b, name),
            6 => add_u::<[u16; 3]>(b, name),
            7 => add_u::<[u32; 3]>(b, name),
            8 => add_u::<[u64; 3]>(b, name),
            9 => add_u::<f64>(b, name),
            10 => add_u::<char>(b, name),
            11 => add_u::<bool>(b, name),
            12 => add_u::<A16>(b, name),
            13 => add_u::<A32>(b, name),
            23 => add_u::<()>(b, name),
            24 => add_u::<[u64; 0]>(b, name),
            26 => add_u::<S12>(b, name),
            27 => add_u::<S6>(b, name),
            28 => add_u::<[u8; 5]>(b, name),
            29 => add_u::<[u8; 7]>(b, name),
            30 => add_u::<Option<u32>>(b, name),
            31 => add_u::<[u64; 40]>(b, name),
            _ => panic!("palette type {} is not Copy", p),
        }
    } else {
        match p {
            0 => add_t::<u8>(b, name),
            1 => add_t::<u16>(b, name),
            2 => add_t::<u32>(b, name),
            3 => add_t::<u64>(b, name),
            4 => add_t::<u128>(b, name),
            5 => add_t::<[u8; 3]>(b, name),
            6 => add_t::<[u16; 3]>(b, name),
            7 => add_t::<[u32; 3]>(b, name),
            8 => add_t::<[u64; 3]>(b, name),
            9 => add_t::<f64>(b, name),
            10 => add_t::<char>(b, name),
            11 => add_t::<bool>(b, name),
            12 => add_t::<A16>(b, name),
            13 => add_t::<A32>(b, name),
            15 => add_t::<String>(b, name),
            16 => add_t::<Vec<u32>>(b, name),
            17 => add_t::<Box<str>>(b, name),
            18 => add_t::<Option<Box<u64>>>(b, name),
            19 => add_t::<Tracked>(b, name),
            20 => add_t::<[Tracked; 2]>(b, name),
            21 => add_t::<TrackedBig>(b, name),
            22 => add_t::<Tracked12>(b, name),
            23 => add_t::<()>(b, name),
            24 => add_t::<[u64; 0]>(b, name),
            25 => add_t::<ZstDrop>(b, name),
            26 => add_t::<S12>(b, name),
            27 => add_t::<S6>(b, name),
            28 => add_t::<[u8; 5]>(b, name),
            29 => add_t::<[u8; 7]>(b, name),
            30 => add_t::<Option<u32>>(b, name),
            31 => add_t::<[u64; 40]>(b, name),
            32 => add_t::<TrackedHuge>(b, name),
            _ => panic!("unknown palette type {}", p),
        }
    }
}

#[derive(Clone, Debug)]
pub enum GReq {
    Add { pal: usize, uninit: bool, name: String },
    /// datum added and removed again before the close, with a type name that cannot be named
    Orphan { name: String },
    Remove { k: usize },
    Close { strat: Strat },
}

#[derive(Clone, Debug)]
pub struct GSpec {
    pub label: String,
    pub reqs: Vec<GReq>,
    pub fragset: usize,
}

impl GSpec {
    pub fn text(&self) -> String {
        let mut s = String::new();
        for r in &self.reqs {
            match r {
                GReq::Add { pal, uninit, name } => {
                    let _ = write!(s, "add {}: {}{}; ", name, PALETTE[*pal].expr, if *uninit { " (may stay uninit)" } else { "" });
                }
                GReq::Orphan { name } => {
                    let _ = write!(s, "add+remove {} (orphan); ", name);
                }
                GReq::Remove { k } => {
                    let _ = write!(s, "rm #{}; ", k);
                }
                GReq::Close { strat } => {
                    let _ = write!(s, "close[{}]; ", strat.tag());
                }
            }
        }
        s
    }
}

fn a(pal: usize, name: &str) -> GReq {
    GReq::Add { pal, uninit: false, name: name.to_owned() }
}
fn u(pal: usize, name: &str) -> GReq {
    GReq::Add { pal, uninit: true, name: name.to_owned() }
}
fn rm(k: usize) -> GReq {
    GReq::Remove { k }
}
fn cl(strat: Strat) -> GReq {
    GReq::Close { strat }
}
fn orphan(name: &str) -> GReq {
    GReq::Orphan { name: name.to_owned() }
}

/// Shape-directed definitions (every run includes them).
pub fn directed_specs() -> Vec<GSpec> {
    use Strat::*;
    let mut out = Vec::new();
    let mut push = |label: &str, fragset: usize, reqs: Vec<GReq>| {
        out.push(GSpec { label: label.to_owned(), reqs, fragset });
    };
    // zero-size droppable value through its whole life
    push("zst-drop-lifecycle", 3, vec![a(3, "id"), a(15, "label"), cl(Simple), a(25, "permit"), cl(Simple), rm(2), a(1, "tail"), cl(Simple)]);
    // zero-size data sharing an offset with a neighbour, then more data
    push("zst-shares-offset", 3, vec![a(0, "a"), a(2, "b"), cl(Simple), a(23, "z"), a(24, "m"), a(25, "p"), cl(Simple), a(2, "c"), a(19, "t"), cl(Simple), rm(2), rm(3), rm(4), cl(Basic)]);
    // zero-size data added in the same step as the sized datum whose offset they end up sharing
    push("zst-same-step", 3, vec![a(0, "a"), cl(Simple), a(2, "value"), a(23, "z"), a(25, "zd"), cl(Simple), rm(0), a(19, "t"), a(24, "m"), a(1, "w"), cl(Simple)]);
    push("zst-same-step-first", 1, vec![a(0, "a"), a(19, "t"), a(25, "zd"), a(23, "z"), a(3, "n"), a(24, "m"), cl(Simple), a(5, "tri"), a(25, "zd2"), cl(Simple)]);
    // a zero-size datum that is strictly more aligned than every sized datum of the definition
    push("zst-most-aligned", 3, vec![a(28, "bytes"), a(2, "n"), cl(Simple), a(24, "m"), cl(Simple), a(1, "w"), a(25, "zd"), cl(Simple)]);
    push("zst-most-aligned-first", 1, vec![a(0, "flag"), a(1, "tag"), a(24, "marker"), cl(Append), a(2, "n"), cl(AppendRev)]);
    // a datum replaced, in one step, by a datum of another type under the same name
    push("same-name-replaced", 3, vec![a(19, "payload"), u(2, "n"), a(15, "s"), cl(Simple), rm(0), a(3, "payload"), cl(Simple), rm(2), a(21, "s"), rm(3), a(22, "payload"), cl(Simple)]);
    // data withdrawn before their variant is closed (not the last one added), others added after
    // them: the declaration order is the order of the requests that survive
    push("withdrawn-in-same-step", 3, vec![a(2, "first"), a(15, "second"), rm(0), a(1, "third"), a(19, "fourth"), cl(Simple), a(3, "fifth"), a(16, "sixth"), rm(4), a(0, "seventh"), rm(1), a(22, "eighth"), cl(Simple), a(15, "ninth"), rm(7), u(2, "tenth"), cl(Simple)]);
    push("withdrawn-in-same-step-basic", 2, vec![a(3, "p"), a(2, "q"), a(15, "r"), rm(1), rm(0), a(1, "s"), a(0, "t"), cl(Basic), a(19, "v"), rm(3), a(3, "w"), cl(Append)]);
    // removal-only steps down to an empty variant, then data again
    push("removal-only-to-empty", 3, vec![a(15, "s"), a(19, "t"), a(2, "n"), a(21, "big"), cl(Simple), rm(2), rm(3), cl(Simple), rm(0), rm(1), cl(Simple), a(20, "pair"), u(1, "w"), cl(Simple)]);
    // empty first variant
    push("empty-first", 1, vec![cl(Simple), a(19, "t"), u(3, "x"), cl(Simple), a(17, "bs"), cl(Simple)]);
    // only may-be-uninit fields
    push("uninit-only", 1, vec![u(2, "x"), u(0, "y"), u(14, "mu"), u(13, "big"), cl(Simple), rm(0), u(1, "z"), u(14, "mu2"), cl(Simple)]);
    // removed and added fields reuse the same bytes
    push("byte-reuse", 3, vec![a(15, "s"), a(19, "t"), a(3, "c"), cl(Simple), rm(1), a(16, "v"), cl(Simple), rm(3), rm(0), a(21, "big"), a(22, "odd"), cl(Simple), rm(4), a(20, "pair"), cl(Simple)]);
    // mandatory fields carried over into a variant built directly with new_uninit
    push("carried-mandatory", 3, vec![a(19, "key"), u(2, "x"), cl(Simple), u(1, "y"), cl(Simple), a(15, "s"), u(3, "z"), cl(Simple)]);
    // optional values at the end of the declaration order
    push("trailing-options", 3, vec![a(2, "n"), a(15, "s"), a(30, "o1"), a(18, "o2"), cl(Simple), a(30, "o3"), cl(Simple)]);
    // plain data declared before may-be-uninit data
    push("plain-before-uninit", 3, vec![a(15, "s"), u(2, "x"), a(19, "t"), u(1, "y"), cl(Simple), a(22, "q"), u(0, "z"), cl(Simple)]);
    // only the most recently declared data are removed
    push("remove-tail", 3, vec![a(19, "a"), a(15, "b"), a(21, "c"), a(17, "d"), cl(Simple), rm(2), rm(3), cl(Simple), rm(0), rm(1), cl(Simple)]);
    // over-aligned and odd shapes
    push("over-aligned", 3, vec![a(0, "b"), a(13, "wide"), a(24, "m"), a(5, "tri"), cl(Simple), rm(1), a(12, "w16"), a(29, "sept"), a(26, "s12"), cl(Simple), a(27, "s6"), a(4, "huge"), cl(Basic)]);
    // retained non-Copy data, then a variant adding only Copy data, then a removal-only one
    push("copy-only-additions", 3, vec![a(15, "s"), a(19, "t"), cl(Simple), u(2, "n"), a(9, "f"), cl(Simple), rm(0), cl(Simple)]);
    // many fields
    let mut reqs = Vec::new();
    for i in 0..16 {
        let p = [0, 19, 2, 15, 5, 22, 3, 25, 1, 21, 12, 17, 23, 20, 9, 16][i];
        reqs.push(a(p, &format!("m{}", i)));
    }
    reqs.push(cl(Simple));
    for k in [1, 4, 7, 9, 13] {
        reqs.push(rm(k));
    }
    reqs.push(a(19, "n0"));
    reqs.push(u(0, "n1"));
    reqs.push(cl(Simple));
    push("many-fields", 3, reqs);
    // a wide record: more than 32 fields, offsets beyond 4096, names that do not sort like their
    // declaration order, names that are prefixes of one another, a leading underscore, a long name
    let mut reqs = Vec::new();
    let wide_types = [31, 19, 0, 31, 15, 2, 31, 22, 31, 5, 31, 3, 31, 21, 31, 1, 31, 12, 31, 16, 31, 9, 31, 20, 31, 26, 31, 11, 31, 27, 31, 13, 19, 4, 2, 29, 0, 10, 17, 8];
    for (i, p) in wide_types.iter().enumerate() {
        let name = match i % 5 {
            0 => format!("z{:03}", 900 - i),
            1 => format!("p{}", "q".repeat(i / 5 + 1)),
            2 => format!("_under_{}", i),
            3 => format!("a_rather_long_field_name_that_goes_on_and_on_and_on_for_quite_a_while_{}", i),
            _ => format!("f{}", i),
        };
        reqs.push(if PALETTE[*p].copy && i % 3 == 0 { u(*p, &name) } else { a(*p, &name) });
    }
    reqs.push(cl(Simple));
    for k in [0, 3, 6, 21, 33, 39] {
        reqs.push(rm(k));
    }
    reqs.push(a(19, "late_tracked"));
    reqs.push(u(31, "late_big"));
    reqs.push(a(15, "a"));
    reqs.push(a(22, "ab"));
    reqs.push(cl(Simple));
    reqs.push(rm(1));
    reqs.push(rm(40));
    reqs.push(a(21, "abc"));
    reqs.push(cl(Basic));
    push("wide-record", 1, reqs);
    // a wide serialisable record: more than 16 fields, more than 1 KiB of data, heap-owning
    // fields before and after every position
    let mut reqs = Vec::new();
    let ser_types = [19, 2, 15, 32, 0, 22, 30, 21, 5, 16, 19, 9, 17, 32, 11, 20, 3, 18, 26, 19, 1, 15];
    for (i, p) in ser_types.iter().enumerate() {
        reqs.push(a(*p, &format!("s{}", i)));
    }
    reqs.push(cl(Simple));
    reqs.push(rm(3));
    reqs.push(rm(10));
    reqs.push(a(21, "after"));
    reqs.push(a(15, "after2"));
    reqs.push(cl(Simple));
    push("wide-serde", 3, reqs);
    // a huge droppable datum removed while other data are added on its bytes
    push("byte-reuse-huge", 3, vec![a(32, "huge"), a(3, "n"), a(19, "t"), cl(Simple), rm(0), a(20, "pair"), a(21, "big"), a(15, "s"), a(16, "v"), cl(Simple), rm(4), rm(5), a(32, "huge2"), cl(Simple), rm(7), a(17, "bs"), a(22, "odd"), cl(Basic)]);
    // many small fields, every other one removed (more than 32 separate holes), several additions
    // that fill holes, then a third variant
    let mut reqs = Vec::new();
    for i in 0..70 {
        let p = [2, 1, 0, 5][i % 4];
        reqs.push(if i % 3 == 0 { u(p, &format!("c{}", i)) } else { a(p, &format!("c{}", i)) });
    }
    reqs.push(cl(Simple));
    for i in (1..70).step_by(2) {
        reqs.push(rm(i));
    }
    reqs.push(a(2, "n0"));
    reqs.push(a(19, "nt"));
    for j in 0..6 {
        reqs.push(a(1, &format!("h{}", j)));
        reqs.push(a(0, &format!("b{}", j)));
    }
    reqs.push(cl(Simple));
    for j in 0..4 {
        reqs.push(a(3, &format!("w{}", j)));
        reqs.push(a(2, &format!("x{}", j)));
    }
    reqs.push(cl(Simple));
    push("many-small-fields", 0, reqs);
    // the same with equal-sized fields: every hole fits every addition
    let mut reqs = Vec::new();
    for i in 0..70 {
        reqs.push(if i % 3 == 0 { u(2, &format!("c{}", i)) } else { a(2, &format!("c{}", i)) });
    }
    reqs.push(cl(Simple));
    for i in (1..70).step_by(2) {
        reqs.push(rm(i));
    }
    for j in 0..3 {
        reqs.push(a(2, &format!("n{}", j)));
    }
    reqs.push(cl(Simple));
    for j in 0..4 {
        reqs.push(a(3, &format!("w{}", j)));
        reqs.push(a(2, &format!("x{}", j)));
    }
    reqs.push(cl(Simple));
    push("many-equal-fields", 0, reqs);
    // more than 32 data added by one later variant, after a removal that leaves a hole
    let mut reqs = vec![a(3, "a"), a(2, "b"), a(2, "c"), a(3, "e"), cl(Simple), rm(1)];
    for j in 0..34 {
        reqs.push(a(3, &format!("k{}", j)));
    }
    reqs.push(a(2, "g"));
    reqs.push(a(0, "h"));
    reqs.push(cl(Simple));
    push("bulk-additions", 0, reqs);
    // many variants: two-digit variant numbers
    let mut reqs = Vec::new();
    let mut issued = 0usize;
    for v in 0..14 {
        let p = [19, 2, 15, 5, 22, 3, 21, 1, 16, 12, 20, 0, 17, 26][v];
        reqs.push(if PALETTE[p].copy && v % 2 == 1 { u(p, &format!("v{}", v)) } else { a(p, &format!("v{}", v)) });
        issued += 1;
        if v >= 2 && v % 2 == 0 {
            reqs.push(rm(issued - 3));
        }
        reqs.push(cl(if v % 4 == 3 { Basic } else { Simple }));
    }
    push("many-variants", 3, reqs);
    // orphans with a type that cannot be named, every strategy
    push("orphans", 3, vec![orphan("ghost0"), a(19, "t"), cl(Append), orphan("ghost1"), a(2, "n"), cl(AppendRev), rm(1), orphan("ghost2"), cl(Basic), a(15, "s"), cl(Simple)]);
    // default fragments only, MaybeUninit that stays unwritten across conversions
    push("maybe-uninit-carried", 0, vec![u(14, "mu"), a(19, "t"), cl(Simple), u(2, "x"), cl(Simple), rm(0), a(16, "v"), cl(Simple)]);
    // serde only
    push("serde-only", 2, vec![a(19, "t"), a(11, "flag"), a(10, "ch"), a(4, "huge"), a(25, "p"), a(23, "unit"), cl(Simple), rm(1), a(8, "tri"), cl(Simple)]);
    out
}

/// Seeded definition sampler.
pub fn random_spec(rng: &mut Rng, index: usize) -> GSpec {
    let fragset = index % 4;
    let serde = fragset & 2 != 0;
    let nvariants = rng.range(1, 5);
    let uniform = if rng.chance(2, 3) { Some(Strat::Simple) } else if rng.chance(1, 2) { Some(*rng.pick(&STRATS)) } else { None };
    let mut reqs = Vec::new();
    let mut live: Vec<(usize, String)> = Vec::new(); // (k, name)
    let mut issued = 0usize;
    let mut next_name = 0usize;
    let mut free_names: Vec<String> = Vec::new();
    let name_style = rng.below(7);
    let fresh_name = |n: usize| -> String {
        match name_style {
            // names whose sort order is the reverse of the declaration order
            3 => format!("z{:03}", 900 - n),
            // a leading underscore and a long name
            4 => format!("_long_field_name_number_{}_with_some_more_words_after_it", n),
            // names that are prefixes of one another
            5 => format!("p{}", "q".repeat(n + 1)),
            // mixed case-free shapes with digits in the middle
            6 => format!("x{}y{}", n % 3, n),
            _ => format!("f{}", n),
        }
    };
    // type pools
    let droppable: Vec<usize> = vec![15, 16, 17, 18, 19, 19, 19, 20, 21, 22, 25];
    let plain: Vec<usize> = vec![0, 1, 2, 3, 4, 5, 6, 7, 8, 9, 10, 11, 12, 13, 23, 24, 26, 27, 28, 29, 30];
    for v in 0..nvariants {
        // removals
        let mut removed_now = Vec::new();
        let rm_num = *rng.pick(&[0usize, 2, 4, 7]);
        for (k, name) in live.clone() {
            if rng.below(10) < rm_num {
                reqs.push(GReq::Remove { k });
                removed_now.push(name.clone());
                live.retain(|(kk, _)| *kk != k);
            }
        }
        let room = 10usize.saturating_sub(live.len());
        let nadds = if v == 0 { rng.range(1, 5) } else { rng.range(0, 4) }.min(room);
        for _ in 0..nadds {
            let is_drop = rng.chance(1, 2);
            let mut p = if is_drop { *rng.pick(&droppable) } else { *rng.pick(&plain) };
            let mut uninit = !is_drop && rng.chance(1, 2);
            if !serde && !is_drop && rng.chance(1, 8) {
                p = 14;
                uninit = true;
            }
            // names: mostly fresh, sometimes one that an earlier variant used
            let name = if !removed_now.is_empty() && rng.chance(1, 3) {
                // the name of a datum removed in this very step (the builder allows it)
                let i = rng.below(removed_now.len());
                removed_now.remove(i)
            } else if !free_names.is_empty() && rng.chance(1, 4) {
                let i = rng.below(free_names.len());
                free_names.remove(i)
            } else {
                next_name += 1;
                fresh_name(next_name - 1)
            };
            reqs.push(GReq::Add { pal: p, uninit, name: name.clone() });
            live.push((issued, name));
            issued += 1;
            if rng.chance(1, 12) {
                reqs.push(GReq::Orphan { name: format!("ghost{}", issued) });
                issued += 1;
            }
        }
        // sometimes one of the data added in this very step (not the last one) is withdrawn
        // again before the close, and another datum is added after it
        if nadds >= 2 && live.len() >= nadds && rng.chance(1, 5) {
            let i = live.len() - nadds + rng.below(nadds - 1);
            let (k, old_name) = live.remove(i);
            reqs.push(GReq::Remove { k });
            let is_drop = rng.chance(1, 2);
            let p = if is_drop { *rng.pick(&droppable) } else { *rng.pick(&plain) };
            let name = if rng.chance(1, 2) {
                old_name
            } else {
                next_name += 1;
                fresh_name(next_name - 1)
            };
            reqs.push(GReq::Add { pal: p, uninit: !is_drop && rng.chance(1, 2), name: name.clone() });
            live.push((issued, name));
            issued += 1;
        }
        if v > 0 && reqs.last().map_or(true, |r| matches!(r, GReq::Close { .. })) {
            // nothing changed: a close would create no variant
            continue;
        }
        free_names.extend(removed_now);
        reqs.push(GReq::Close { strat: uniform.unwrap_or_else(|| *rng.pick(&STRATS)) });
    }
    GSpec { label: format!("random-{}", index), reqs, fragset }
}

pub struct Built {
    pub def: RecordDefinition<NativeDatumDetails>,
    /// datum id -> palette index
    pub pal_of: BTreeMap<usize, usize>,
    /// datum id -> position of its add request in the history: the declaration order is the
    /// order of the requests, whatever identifiers the builder hands out
    pub decl_of: BTreeMap<usize, usize>,
}

pub fn build_spec(spec: &GSpec) -> Result<Built, String> {
    let mut b: Builder = NativeRecordDefinitionBuilder::new(HostTypeResolver);
    let mut issued: Vec<DatumId> = Vec::new();
    let mut pal_of = BTreeMap::new();
    let mut decl_of = BTreeMap::new();
    let mut closes = 0usize;
    for (ri, r) in spec.reqs.iter().enumerate() {
        match r {
            GReq::Add { pal, uninit, name } => {
                let id = add_pal(&mut b, *pal, *uninit, name)?;
                pal_of.insert(id_of(id), *pal);
                decl_of.insert(id_of(id), ri);
                issued.push(id);
            }
            GReq::Orphan { name } => {
                let id = b.add_datum_override::<(), _>(
                    name.as_str(),
                    DatumDefinitionOverride {
                        type_name: Some("not::nameable::Anywhere".to_owned()),
                        size: Some(12),
                        align: Some(4),
                        allow_uninit: None,
                    },
                )?;
                issued.push(id);
                b.remove_datum(id)?;
            }
            GReq::Remove { k } => b.remove_datum(issued[*k])?,
            GReq::Close { strat } => {
                match strat {
                    Strat::Simple if closes % 2 == 1 => b.close_record_variant(),
                    Strat::Simple => b.close_record_variant_with(nvariant::simple),
                    Strat::Basic => b.close_record_variant_with(nvariant::basic),
                    Strat::Append => b.close_record_variant_with(nvariant::append_data),
                    Strat::AppendRev => b.close_record_variant_with(nvariant::append_data_reverse),
                };
                closes += 1;
            }
        }
    }
    Ok(Built { def: b.build(), pal_of, decl_of })
}

struct FieldInfo {
    datum_id: usize,
    name: String,
    pal: usize,
    offset: usize,
    size: usize,
    align: usize,
    uninit: bool,
}

fn variant_fields(built: &Built) -> Vec<Vec<FieldInfo>> {
    built
        .def
        .variants()
        .map(|v| {
            let mut ids: Vec<DatumId> = v.data().collect();
            ids.sort_by_key(|d| built.decl_of.get(&id_of(*d)).copied().unwrap_or(usize::MAX));
            ids.into_iter()
                .map(|d| {
                    let dd = &built.def[d];
                    FieldInfo {
                        datum_id: id_of(d),
                        name: dd.name().to_owned(),
                        pal: built.pal_of[&id_of(d)],
                        offset: dd.details().offset(),
                        size: dd.details().size(),
                        align: dd.details().type_align(),
                        uninit: dd.details().allow_uninit(),
                    }
                })
                .collect()
        })
        .collect()
}

fn mk(ty: &str, idx: &str) -> String {
    format!("<{} as Probe>::make({})", ty, idx)
}

/// Text of the driver of module `k`.
/// Field names of a struct of the generated text (`None` when the struct is not there).
fn struct_fields(text: &str, name: &str) -> Option<Vec<String>> {
    let mut lines = text.lines();
    while let Some(l) = lines.next() {
        let t = l.trim();
        let rest = match t.strip_prefix("pub struct ").or_else(|| t.strip_prefix("struct ")) {
            Some(r) => r,
            None => continue,
        };
        let ident: String = rest.chars().take_while(|c| c.is_alphanumeric() || *c == '_').collect();
        if ident != name {
            continue;
        }
        if t.ends_with(';') {
            return Some(Vec::new());
        }
        let mut fields = Vec::new();
        for l in lines.by_ref() {
            let t = l.trim();
            if t.starts_with('}') {
                break;
            }
            if let Some(r) = t.strip_prefix("pub ") {
                if let Some(n) = r.split(':').next() {
                    fields.push(n.trim().to_owned());
                }
            }
        }
        return Some(fields);
    }
    None
}

/// The driver follows the *generated* interface where it differs from what the definition
/// promises (the difference is reported, and the rest of the module is still exercised).
pub fn driver_text(k: usize, spec: &GSpec, built: &Built, reduced: bool, generated: &str, mismatches: &mut Vec<String>) -> String {
    let vf = variant_fields(built);
    let mut offered = |strukt: String, wanted: &[String], mismatches: &mut Vec<String>| -> Vec<String> {
        match struct_fields(generated, &strukt) {
            None => wanted.to_vec(),
            Some(actual) => {
                let missing: Vec<&String> = wanted.iter().filter(|w| !actual.contains(w)).collect();
                let extra: Vec<&String> = actual.iter().filter(|a| !wanted.contains(a) && *a != "record").collect();
                if !missing.is_empty() || !extra.is_empty() {
                    mismatches.push(format!("{}: the definition promises fields {:?}, the generated struct has {:?}", strukt, wanted, actual));
                }
                wanted.iter().filter(|w| actual.contains(w)).cloned().collect()
            }
        }
    };
    let nv = vf.len();
    let has_clone = spec.fragset & 1 != 0;
    let has_serde = spec.fragset & 2 != 0;
    let mut s = String::new();
    let w = &mut s;
    let _ = writeln!(w, "// driver of module m{} ({}), fragments: {}", k, spec.label, FRAGSETS[spec.fragset]);
    let _ = writeln!(w, "#![allow(unused_variables, unused_mut, unused_imports, dead_code, unreachable_patterns, clippy::all)]");
    let _ = writeln!(w, "use drvlib::{{obs, skipped, Drv, FieldMeta, FieldObs, Meta, Op, OpOut, VariantMeta}};");
    let _ = writeln!(w, "use vtypes::Probe;");
    let _ = writeln!(w, "use crate::m{}::*;", k);
    let _ = writeln!(w, "use std::panic::{{catch_unwind, AssertUnwindSafe}};");
    // Rec enum
    let _ = writeln!(w, "pub enum Rec<const CAP: usize> {{ Empty,");
    for v in 0..nv {
        let _ = writeln!(w, "    V{}(CappedRecord{}<CAP>),", v, v);
    }
    let _ = writeln!(w, "}}");
    let _ = writeln!(w, "#[repr(C)] pub struct SlotC<const CAP: usize> {{ hdr: u32, rec: Rec<CAP> }}");
    let _ = writeln!(w, "pub struct State<const CAP: usize> {{ stack0: Rec<CAP>, stack1: Rec<CAP>, boxed: [Box<Rec<CAP>>; 2], vec: Vec<Rec<CAP>>, slotc: [SlotC<CAP>; 2], minal: [drvlib::MinAligned<Rec<CAP>>; 2] }}");
    let _ = writeln!(
        w,
        "impl<const CAP: usize> State<CAP> {{
    pub fn new() -> Self {{ State {{ stack0: Rec::Empty, stack1: Rec::Empty, boxed: [Box::new(Rec::Empty), Box::new(Rec::Empty)], vec: vec![Rec::Empty, Rec::Empty, Rec::Empty], slotc: [SlotC {{ hdr: 1, rec: Rec::Empty }}, SlotC {{ hdr: 2, rec: Rec::Empty }}], minal: [drvlib::MinAligned::new(Rec::Empty), drvlib::MinAligned::new(Rec::Empty)] }} }}
    fn slot_mut(&mut self, i: usize) -> &mut Rec<CAP> {{ match i {{ 0 => &mut self.stack0, 1 => &mut self.stack1, 2 | 3 => &mut *self.boxed[i - 2], 4 | 5 | 6 => &mut self.vec[i - 4], 7 | 8 => &mut self.slotc[i - 7].rec, _ => &mut *self.minal[(i - 9) % 2] }} }}
    fn slot_ref(&self, i: usize) -> &Rec<CAP> {{ match i {{ 0 => &self.stack0, 1 => &self.stack1, 2 | 3 => &*self.boxed[i - 2], 4 | 5 | 6 => &self.vec[i - 4], 7 | 8 => &self.slotc[i - 7].rec, _ => &*self.minal[(i - 9) % 2] }} }}
    fn take(&mut self, i: usize) -> Rec<CAP> {{ std::mem::replace(self.slot_mut(i), Rec::Empty) }}
}}"
    );
    // per-variant functions
    for v in 0..nv {
        let f = &vf[v];
        let names_all: Vec<String> = f.iter().map(|x| x.name.clone()).collect();
        let names_mand: Vec<String> = f.iter().filter(|x| !x.uninit).map(|x| x.name.clone()).collect();
        let ok_all = offered(format!("UnpackedRecord{}", v), &names_all, mismatches);
        let ok_mand = offered(format!("UnpackedUninitRecord{}", v), &names_mand, mismatches);
        let all = f.iter().enumerate().filter(|(_, x)| ok_all.contains(&x.name)).map(|(i, x)| format!("{}: {}", x.name, mk(PALETTE[x.pal].expr, &format!("ids[{}]", i)))).collect::<Vec<_>>().join(", ");
        let mandatory = f.iter().enumerate().filter(|(_, x)| !x.uninit && ok_mand.contains(&x.name)).map(|(i, x)| format!("{}: {}", x.name, mk(PALETTE[x.pal].expr, &format!("ids[{}]", i)))).collect::<Vec<_>>().join(", ");
        let _ = writeln!(w, "fn new_{v}<const CAP: usize>(ids: &[u64]) -> CappedRecord{v}<CAP> {{ CappedRecord{v}::new(UnpackedRecord{v} {{ {all} }}) }}");
        let _ = writeln!(w, "fn new_uninit_{v}<const CAP: usize>(ids: &[u64]) -> CappedRecord{v}<CAP> {{ CappedRecord{v}::new_uninit(UnpackedUninitRecord{v} {{ {mandatory} }}) }}");
        let _ = writeln!(w, "fn from_unpacked_{v}<const CAP: usize>(ids: &[u64]) -> CappedRecord{v}<CAP> {{ CappedRecord{v}::from(UnpackedRecord{v} {{ {all} }}) }}");
        let _ = writeln!(w, "fn from_unpacked_uninit_{v}<const CAP: usize>(ids: &[u64]) -> CappedRecord{v}<CAP> {{ CappedRecord{v}::from(UnpackedUninitRecord{v} {{ {mandatory} }}) }}");
        // read_all
        let _ = writeln!(w, "fn read_all_{v}<const CAP: usize>(r: &CappedRecord{v}<CAP>, mask: drvlib::Mask) -> Vec<FieldObs> {{ vec![");
        for (i, x) in f.iter().enumerate() {
            let _ = writeln!(w, "    if mask & ((1 as drvlib::Mask) << {i}) != 0 {{ obs(r.{}()) }} else {{ skipped() }},", x.name);
        }
        let _ = writeln!(w, "] }}");
        // write
        let _ = writeln!(w, "fn write_{v}<const CAP: usize>(r: &mut CappedRecord{v}<CAP>, field: usize, id: u64) {{ match field {{");
        for (i, x) in f.iter().enumerate() {
            let _ = writeln!(w, "    {i} => {{ *r.{}_mut() = {}; }}", x.name, mk(PALETTE[x.pal].expr, "id"));
        }
        let _ = writeln!(w, "    _ => panic!(\"no such field\") }} }}");
        // unpack
        let _ = writeln!(w, "fn unpack_{v}<const CAP: usize>(r: CappedRecord{v}<CAP>, mask: drvlib::Mask) -> Vec<FieldObs> {{ let u = r.unpack(); vec![");
        for (i, x) in f.iter().enumerate() {
            if ok_all.contains(&x.name) {
                let _ = writeln!(w, "    if mask & ((1 as drvlib::Mask) << {i}) != 0 {{ obs(&u.{}) }} else {{ skipped() }},", x.name);
            } else {
                let _ = writeln!(w, "    skipped(),");
            }
        }
        let _ = writeln!(w, "] }}");
        // conversion from the previous variant
        if v > 0 {
            let prev = &vf[v - 1];
            let minus: Vec<&FieldInfo> = prev.iter().filter(|p| !f.iter().any(|x| x.datum_id == p.datum_id)).collect();
            let plus: Vec<&FieldInfo> = f.iter().filter(|x| !prev.iter().any(|p| p.datum_id == x.datum_id)).collect();
            let names_plus: Vec<String> = plus.iter().map(|x| x.name.clone()).collect();
            let names_plus_mand: Vec<String> = plus.iter().filter(|x| !x.uninit).map(|x| x.name.clone()).collect();
            let names_minus: Vec<String> = minus.iter().map(|x| x.name.clone()).collect();
            let ok_plus = offered(format!("UnpackedRecordIn{}", v), &names_plus, mismatches);
            let ok_plus_mand = offered(format!("UnpackedUninitRecordIn{}", v), &names_plus_mand, mismatches);
            let ok_minus = offered(format!("Record{}AndUnpackedOut", v), &names_minus, mismatches);
            let plus_all = plus.iter().enumerate().filter(|(_, x)| ok_plus.contains(&x.name)).map(|(i, x)| format!("{}: {}", x.name, mk(PALETTE[x.pal].expr, &format!("ids[{}]", i)))).collect::<Vec<_>>().join(", ");
            let plus_mand = plus.iter().enumerate().filter(|(_, x)| !x.uninit && ok_plus_mand.contains(&x.name)).map(|(i, x)| format!("{}: {}", x.name, mk(PALETTE[x.pal].expr, &format!("ids[{}]", i)))).collect::<Vec<_>>().join(", ");
            let destructure = std::iter::once("record".to_owned()).chain(minus.iter().filter(|m| ok_minus.contains(&m.name)).map(|m| m.name.clone())).chain(std::iter::once("..".to_owned())).collect::<Vec<_>>().join(", ");
            let returned = minus.iter().enumerate().map(|(i, m)| if ok_minus.contains(&m.name) { format!("if mask & ((1 as drvlib::Mask) << {i}) != 0 {{ obs(&{}) }} else {{ skipped() }}", m.name) } else { "skipped()".to_owned() }).collect::<Vec<_>>().join(", ");
            let p = v - 1;
            if reduced {
                let _ = writeln!(
                    w,
                    "fn convert_{v}<const CAP: usize>(r: CappedRecord{p}<CAP>, form: u8, ids: &[u64], mask: drvlib::Mask) -> (CappedRecord{v}<CAP>, Vec<FieldObs>) {{ match form {{
    0 => (CappedRecord{v}::from((r, UnpackedRecordIn{v} {{ {plus_all} }})), Vec::new()),
    _ => (CappedRecord{v}::from((r, UnpackedUninitRecordIn{v} {{ {plus_mand} }})), Vec::new()),
}} }}"
                );
            } else {
            let _ = writeln!(
                w,
                "fn convert_{v}<const CAP: usize>(r: CappedRecord{p}<CAP>, form: u8, ids: &[u64], mask: drvlib::Mask) -> (CappedRecord{v}<CAP>, Vec<FieldObs>) {{ match form {{
    0 => (CappedRecord{v}::from((r, UnpackedRecordIn{v} {{ {plus_all} }})), Vec::new()),
    1 => (CappedRecord{v}::from((r, UnpackedUninitRecordIn{v} {{ {plus_mand} }})), Vec::new()),
    2 => {{ let Record{v}AndUnpackedOut {{ {destructure} }} = Record{v}AndUnpackedOut::from((r, UnpackedRecordIn{v} {{ {plus_all} }})); let o = vec![{returned}]; (record, o) }}
    _ => {{ let Record{v}AndUnpackedOut {{ {destructure} }} = Record{v}AndUnpackedOut::from((r, UnpackedUninitRecordIn{v} {{ {plus_mand} }})); let o = vec![{returned}]; (record, o) }}
}} }}"
            );
            }
            // vector of records converted in place (form 0)
            let plus_row = plus.iter().enumerate().filter(|(_, x)| ok_plus.contains(&x.name)).map(|(i, x)| format!("{}: {}", x.name, mk(PALETTE[x.pal].expr, &format!("plus_rows[i][{}]", i)))).collect::<Vec<_>>().join(", ");
            let _ = writeln!(
                w,
                "fn vec_convert_{p}<const CAP: usize>(rows: &[Vec<u64>], plus_rows: &[Vec<u64>], keep: u64, spare: usize) -> OpOut {{
    let mut v: Vec<CappedRecord{p}<CAP>> = Vec::with_capacity(rows.len() + spare);
    for r in rows {{ v.push(new_{p}::<CAP>(r)); }}
    let p0 = v.as_ptr() as usize; let c0 = v.capacity();
    let idx = std::sync::atomic::AtomicUsize::new(0);
    let out = truc_runtime::convert::convert_vec_in_place::<CappedRecord{p}<CAP>, CappedRecord{v}<CAP>, _>(v, |rec, _prev| {{
        let i = idx.fetch_add(1, std::sync::atomic::Ordering::Relaxed);
        if keep & (1 << i) != 0 {{ truc_runtime::convert::VecElementConversionResult::Converted(CappedRecord{v}::from((rec, UnpackedRecordIn{v} {{ {plus_row} }}))) }} else {{ truc_runtime::convert::VecElementConversionResult::Abandonned }}
    }});
    let mut o = OpOut::default();
    o.same_buffer = out.as_ptr() as usize == p0; o.same_capacity = out.capacity() == c0;
    o.rows = out.iter().map(|r| read_all_{v}(r, !0)).collect();
    o
}}"
            );
        }
        if has_serde {
            let mkd = |ty: &str, idx: &str| format!("<{} as Probe>::make_detached({})", ty, idx);
            let parts_json = f.iter().enumerate().map(|(i, x)| format!("serde_json::to_string(&{}).unwrap()", mkd(PALETTE[x.pal].expr, &format!("ids[{}]", i)))).collect::<Vec<_>>().join(", ");
            let parts_bin = f.iter().enumerate().map(|(i, x)| format!("b.extend(bincode::serialize(&{}).unwrap());", mkd(PALETTE[x.pal].expr, &format!("ids[{}]", i)))).collect::<Vec<_>>().join(" ");
            let _ = writeln!(
                w,
                "fn expected_{v}(ids: &[u64]) -> (String, Vec<u8>) {{ let parts: Vec<String> = vec![{parts_json}]; let mut b: Vec<u8> = Vec::new(); {parts_bin} (format!(\"[{{}}]\", parts.join(\",\")), b) }}"
            );
        }
    }
    // meta
    let _ = writeln!(w, "fn meta_of<const CAP: usize>() -> Meta {{ Meta {{ module: \"m{}\", history: {:?}, cap: CAP, max_size: MAX_SIZE, has_clone: {}, has_serde: {}, has_returning_forms: {}, uninit_size_of: std::mem::size_of::<RecordUninitialized<CAP>>(), uninit_align_of: std::mem::align_of::<RecordUninitialized<CAP>>(), variants: vec![", k, spec.text(), has_clone, has_serde, !reduced);
    for v in 0..nv {
        let f = &vf[v];
        let (minus, plus, reuse): (Vec<usize>, Vec<usize>, usize) = if v > 0 {
            let prev = &vf[v - 1];
            let minus: Vec<usize> = prev.iter().enumerate().filter(|(_, p)| !f.iter().any(|x| x.datum_id == p.datum_id)).map(|(i, _)| i).collect();
            let plus: Vec<usize> = f.iter().enumerate().filter(|(_, x)| !prev.iter().any(|p| p.datum_id == x.datum_id)).map(|(i, _)| i).collect();
            let mut reuse = 0;
            for m in &minus {
                for p in &plus {
                    let (a, b) = (&prev[*m], &f[*p]);
                    if a.size > 0 && b.size > 0 && a.offset < b.offset + b.size && b.offset < a.offset + a.size {
                        reuse += 1;
                    }
                }
            }
            (minus, plus, reuse)
        } else {
            (Vec::new(), (0..f.len()).collect(), 0)
        };
        let _ = writeln!(w, "  VariantMeta {{ minus: vec!{:?}, plus: vec!{:?}, byte_reuse_pairs: {}, size_of: std::mem::size_of::<CappedRecord{v}<CAP>>(), align_of: std::mem::align_of::<CappedRecord{v}<CAP>>(), fields: vec![", minus, plus, reuse);
        for x in f {
            let p = &PALETTE[x.pal];
            let _ = writeln!(
                w,
                "    FieldMeta {{ name: {:?}, ty: {:?}, datum_id: {}, offset: {}, size: {}, align: {}, uninit: {}, real_size: std::mem::size_of::<{ty}>(), real_align: std::mem::align_of::<{ty}>(), droppable: {}, may_stay_unwritten: {}, zst_drop: {}, tracked: {}, clone_points: <{ty} as Probe>::clone_points(), norm: <{ty} as Probe>::norm }},",
                x.name, p.expr, x.datum_id, x.offset, x.size, x.align, x.uninit, p.droppable, p.may_stay_unwritten, p.zst_drop, p.tracked, ty = p.expr
            );
        }
        let _ = writeln!(w, "  ] }},");
    }
    let _ = writeln!(w, "] }} }}");
    // Drv impl
    let arms = |body: &dyn Fn(usize) -> String| -> String { (0..nv).map(|v| body(v)).collect::<Vec<_>>().join("\n") };
    let _ = writeln!(w, "impl<const CAP: usize> Drv for State<CAP> {{");
    let _ = writeln!(w, "  fn meta(&self) -> Meta {{ meta_of::<CAP>() }}");
    let _ = writeln!(w, "  fn variant_in(&self, slot: usize) -> Option<usize> {{ match self.slot_ref(slot) {{ Rec::Empty => None,\n{} }} }}", arms(&|v| format!("    Rec::V{v}(_) => Some({v}),")));
    let _ = writeln!(w, "  fn record_addr(&self, slot: usize) -> usize {{ match self.slot_ref(slot) {{ Rec::Empty => 0,\n{} }} }}", arms(&|v| format!("    Rec::V{v}(r) => r as *const CappedRecord{v}<CAP> as usize,")));
    let _ = writeln!(w, "  fn op(&mut self, op: &Op) -> OpOut {{ let mut out = OpOut::default(); match op {{");
    for (opname, fname) in [("New", "new"), ("NewUninit", "new_uninit"), ("FromUnpacked", "from_unpacked"), ("FromUnpackedUninit", "from_unpacked_uninit")] {
        let _ = writeln!(w, "    Op::{opname} {{ slot, variant, ids }} => {{ let r = match variant {{\n{}\n      _ => panic!(\"no such variant\") }}; *self.slot_mut(*slot) = r; }}", arms(&|v| format!("      {v} => Rec::V{v}({fname}_{v}::<CAP>(ids)),")));
    }
    let _ = writeln!(w, "    Op::ReadAll {{ slot, mask }} => {{ out.obs = match self.slot_ref(*slot) {{ Rec::Empty => Vec::new(),\n{} }}; }}", arms(&|v| format!("      Rec::V{v}(r) => read_all_{v}(r, *mask),")));
    let _ = writeln!(w, "    Op::Write {{ slot, field, id }} => {{ match self.slot_mut(*slot) {{ Rec::Empty => panic!(\"empty slot\"),\n{} }} }}", arms(&|v| format!("      Rec::V{v}(r) => write_{v}(r, *field, *id),")));
    let _ = writeln!(w, "    Op::Unpack {{ slot, mask }} => {{ out.obs = match self.take(*slot) {{ Rec::Empty => Vec::new(),\n{} }}; }}", arms(&|v| format!("      Rec::V{v}(r) => unpack_{v}(r, *mask),")));
    let _ = writeln!(w, "    Op::Drop {{ slot }} => {{ let r = self.take(*slot); drop(r); }}");
    let _ = writeln!(w, "    Op::Move {{ from, to }} => {{ let r = self.take(*from); *self.slot_mut(*to) = r; }}");
    let _ = writeln!(
        w,
        "    Op::Convert {{ slot, form, ids, mask }} => {{ let (n, o) = match self.take(*slot) {{\n{}\n      _ => panic!(\"cannot convert\") }}; out.obs = o; *self.slot_mut(*slot) = n; }}",
        (0..nv.saturating_sub(1)).map(|v| format!("      Rec::V{v}(r) => {{ let (n, o) = convert_{}(r, *form, ids, *mask); (Rec::V{}(n), o) }}", v + 1, v + 1)).collect::<Vec<_>>().join("\n")
    );
    let _ = writeln!(
        w,
        "    Op::ConvertDropPanic {{ slot, form, ids, k }} => {{ let r = self.take(*slot); vtypes::DROP_PANIC_COUNTDOWN.with(|c| c.set(*k as i64));
      let res = catch_unwind(AssertUnwindSafe(|| match r {{\n{}\n        _ => panic!(\"cannot convert\") }}));
      vtypes::DROP_PANIC_COUNTDOWN.with(|c| c.set(-1));
      match res {{ Ok(n) => {{ *self.slot_mut(*slot) = n; }} Err(p) => {{ out.panicked = Some(drvlib::panic_text(p)); }} }} }}",
        (0..nv.saturating_sub(1)).map(|v| format!("        Rec::V{v}(r) => Rec::V{}(convert_{}(r, *form, ids, 0).0),", v + 1, v + 1)).collect::<Vec<_>>().join("\n")
    );
    let _ = writeln!(
        w,
        "    Op::VecConvert {{ variant, rows, plus_rows, keep, spare }} => {{ out = match variant {{\n{}\n      _ => panic!(\"no such conversion\") }}; }}",
        (0..nv.saturating_sub(1)).map(|v| format!("      {v} => vec_convert_{v}::<CAP>(rows, plus_rows, *keep, *spare),")).collect::<Vec<_>>().join("\n")
    );
    if has_clone {
        let _ = writeln!(w, "    Op::Clone {{ from, to }} => {{ let c = match self.slot_ref(*from) {{ Rec::Empty => Rec::Empty,\n{} }}; *self.slot_mut(*to) = c; }}", arms(&|v| format!("      Rec::V{v}(r) => Rec::V{v}(r.clone()),")));
        let _ = writeln!(w, "    Op::CloneFrom {{ from, to }} => {{ let f = self.take(*from); match (self.slot_mut(*to), &f) {{\n{}\n      _ => panic!(\"clone_from between different variants\") }}; *self.slot_mut(*from) = f; }}", arms(&|v| format!("      (Rec::V{v}(t), Rec::V{v}(s)) => t.clone_from(s),")));
        let _ = writeln!(
            w,
            "    Op::ClonePanic {{ from, to, k, assign }} => {{ let f = self.take(*from); vtypes::CLONE_PANIC_COUNTDOWN.with(|c| c.set(*k as i64));
      let r = if *assign {{ let t = self.slot_mut(*to); catch_unwind(AssertUnwindSafe(|| {{ match (t, &f) {{\n{}\n        _ => panic!(\"clone_from between different variants\") }}; Rec::Empty }})) }} else {{ catch_unwind(AssertUnwindSafe(|| match &f {{ Rec::Empty => Rec::Empty,\n{} }})) }};
      vtypes::CLONE_PANIC_COUNTDOWN.with(|c| c.set(-1));
      match r {{ Ok(c) => {{ drop(c); }} Err(p) => {{ out.panicked = Some(drvlib::panic_text(p)); }} }}
      *self.slot_mut(*from) = f; }}",
            arms(&|v| format!("        (Rec::V{v}(t), Rec::V{v}(s)) => t.clone_from(s),")),
            arms(&|v| format!("        Rec::V{v}(r) => Rec::V{v}(r.clone()),"))
        );
    }
    if has_serde {
        let _ = writeln!(w, "    Op::SerJson {{ slot }} => {{ out.text = match self.slot_ref(*slot) {{ Rec::Empty => None,\n{} }}; }}", arms(&|v| format!("      Rec::V{v}(r) => Some(serde_json::to_string(r).unwrap()),")));
        let _ = writeln!(w, "    Op::SerBin {{ slot }} => {{ out.bytes = match self.slot_ref(*slot) {{ Rec::Empty => None,\n{} }}; }}", arms(&|v| format!("      Rec::V{v}(r) => Some(bincode::serialize(r).unwrap()),")));
        let _ = writeln!(w, "    Op::Expected {{ variant, ids }} => {{ let (t, b) = match variant {{\n{}\n      _ => panic!(\"no such variant\") }}; out.text = Some(t); out.bytes = Some(b); }}", arms(&|v| format!("      {v} => expected_{v}(ids),")));
        let _ = writeln!(
            w,
            "    Op::DeJson {{ slot, variant, text, via_value }} => {{ let r: Result<Rec<CAP>, String> = match variant {{\n{}\n      _ => panic!(\"no such variant\") }}; match r {{ Ok(rec) => {{ *self.slot_mut(*slot) = rec; }} Err(e) => {{ out.err = Some(e); }} }} }}",
            arms(&|v| format!("      {v} => if *via_value {{ serde_json::from_str::<serde_json::Value>(text).map_err(|e| e.to_string()).and_then(|val| serde_json::from_value::<CappedRecord{v}<CAP>>(val).map_err(|e| e.to_string())).map(Rec::V{v}) }} else {{ serde_json::from_str::<CappedRecord{v}<CAP>>(text).map(Rec::V{v}).map_err(|e| e.to_string()) }},"))
        );
        let _ = writeln!(
            w,
            "    Op::DeBin {{ slot, variant, bytes }} => {{ let r: Result<Rec<CAP>, String> = match variant {{\n{}\n      _ => panic!(\"no such variant\") }}; match r {{ Ok(rec) => {{ *self.slot_mut(*slot) = rec; }} Err(e) => {{ out.err = Some(e); }} }} }}",
            arms(&|v| format!("      {v} => bincode::deserialize::<CappedRecord{v}<CAP>>(bytes).map(Rec::V{v}).map_err(|e| e.to_string()),"))
        );
    }
    let _ = writeln!(
        w,
        "    #[cfg(feature = \"threads\")]
    Op::ThreadShare {{ slot, mask }} => {{ let r = self.slot_ref(*slot); let mask = *mask; out.rows = std::thread::scope(|s| {{ let hs: Vec<_> = (0..3).map(|_| s.spawn(move || match r {{ Rec::Empty => Vec::new(),\n{} }})).collect(); hs.into_iter().map(|h| h.join().unwrap()).collect() }}); }}
    #[cfg(feature = \"threads\")]
    Op::ThreadSend {{ slot, mask }} => {{ let r = self.take(*slot); let mask = *mask; let (r, o) = std::thread::spawn(move || {{ let o = match &r {{ Rec::Empty => Vec::new(),\n{} }}; (r, o) }}).join().unwrap(); out.rows = vec![o]; *self.slot_mut(*slot) = r; }}",
        arms(&|v| format!("      Rec::V{v}(x) => read_all_{v}(x, mask),")),
        arms(&|v| format!("      Rec::V{v}(x) => read_all_{v}(x, mask),"))
    );
    let _ = writeln!(w, "    _ => panic!(\"operation not supported by this module\") }} out }}");
    let _ = writeln!(w, "}}");
    s
}

fn write_if_changed(path: &std::path::Path, text: &str) {
    if std::fs::read_to_string(path).map_or(true, |old| old != text) {
        std::fs::write(path, text).expect("write");
    }
}

pub fn mode(args: &Args) {
    let seed = args.u64("seed", 1);
    let count = args.u64("count", 8) as usize;
    let dir = std::path::PathBuf::from(args.str("out-dir", "/verif/work/gendrv"));
    let caps: Vec<usize> = args.str("caps", "0,8").split(',').map(|c| c.parse().unwrap()).collect();
    let only_directed = args.u64("only-directed", 0) != 0;
    std::fs::create_dir_all(dir.join("src")).unwrap();
    let mut specs = directed_specs();
    if only_directed {
        specs.truncate(args.u64("directed-limit", 100) as usize);
    }
    let mut rng = Rng::stream(seed, 0xE417);
    for i in 0..count {
        specs.push(random_spec(&mut rng, i));
    }
    let reduced: Vec<String> = args.str("reduced", "").split(',').filter(|x| !x.is_empty()).map(|x| x.to_owned()).collect();
    let exclude: Vec<String> = args.str("exclude", "").split(',').filter(|x| !x.is_empty()).map(|x| x.to_owned()).collect();
    if args.u64("all-fragsets", 0) != 0 {
        return mode_all_fragsets(&specs, seed, &dir);
    }
    let mut manifest = Vec::new();
    let mut main = String::new();
    main.push_str("// generated by `layoutmon emit`\n#![allow(clippy::all)]\n#[macro_use]\nextern crate static_assertions;\n");
    let mut body = String::new();
    let mut emitted = 0;
    for (k, spec) in specs.iter().enumerate() {
        if exclude.iter().any(|m| *m == format!("m{}", k)) {
            manifest.push(serde_json::json!({"module": format!("m{}", k), "label": spec.label, "history": spec.text(), "status": "excluded: the generated text does not compile"}));
            continue;
        }
        let built = match std::panic::catch_unwind(|| build_spec(spec)) {
            Ok(Ok(b)) => b,
            Ok(Err(e)) => {
                manifest.push(serde_json::json!({"module": format!("m{}", k), "label": spec.label, "history": spec.text(), "status": format!("builder refused: {}", e)}));
                continue;
            }
            Err(_) => {
                manifest.push(serde_json::json!({"module": format!("m{}", k), "label": spec.label, "history": spec.text(), "status": "builder panicked"}));
                continue;
            }
        };
        let text = match std::panic::catch_unwind(|| generate(&built.def, &config_for_alt(spec.fragset, k % 2 == 1))) {
            Ok(t) => t,
            Err(_) => {
                manifest.push(serde_json::json!({"module": format!("m{}", k), "label": spec.label, "history": spec.text(), "status": "generate panicked"}));
                continue;
            }
        };
        write_if_changed(&dir.join("src").join(format!("m{}.rs", k)), &text);
        let mut mismatches: Vec<String> = Vec::new();
        write_if_changed(&dir.join("src").join(format!("d{}.rs", k)), &driver_text(k, spec, &built, reduced.iter().any(|m| *m == format!("m{}", k)), &text, &mut mismatches));
        let _ = writeln!(main, "#[allow(dead_code, unused_imports, unused_variables, clippy::all)]\nmod m{k} {{ include!(\"m{k}.rs\"); }}\nmod d{k};");
        for c in &caps {
            let _ = writeln!(body, "    {{ let mut st = d{k}::State::<{{ m{k}::MAX_SIZE + {c} }}>::new(); drvlib::interp::run_module(&mut st, &args, &mut report); }}");
        }
        let nfields: usize = built.def.variants().map(|v| v.data_len()).sum();
        manifest.push(serde_json::json!({"module": format!("m{}", k), "label": spec.label, "history": spec.text(), "fragments": FRAGSETS[spec.fragset],
            "interface_mismatch": mismatches, "variants": built.def.variants().count(), "fields_total": nfields, "max_size": built.def.max_size(), "align": built.def.max_type_align(), "status": "emitted", "lines": text.lines().count()}));
        emitted += 1;
    }
    let _ = writeln!(
        main,
        "fn main() {{
    let args = drvlib::RunArgs::parse();
    let quiet = std::env::args().any(|a| a == \"--quiet-panics\");
    if quiet {{ std::panic::set_hook(Box::new(|_| {{}})); }}
    let mut report = drvlib::Report::default();
{body}    for (k, v) in drvlib::hook_counters() {{ report.count(k, v); }}
    println!(\"{{}}\", report.to_json(&[(\"hooks\", format!(\"{{}}\", drvlib::HOOKS_ON)), (\"seed\", format!(\"{{}}\", args.seed))]));
}}"
    );
    write_if_changed(&dir.join("src").join("main.rs"), &main);
    // one target directory serves the crates of all seeds of a tier: the crate (and so its
    // executable) is named after its directory, or cargo would run what another seed left there
    let crate_name: String = dir.file_name().and_then(|n| n.to_str()).unwrap_or("gendrv").chars().map(|c| if c.is_ascii_alphanumeric() { c } else { '_' }).collect();
    let cargo = format!(
        "[package]\nname = \"{crate_name}\"\nversion = \"0.1.0\"\nedition = \"2021\"\n\n[workspace]\n\n[dependencies]\ndrvlib = {{ path = \"/verif/harness/drvlib\" }}\nvtypes = {{ path = \"/verif/harness/vtypes\" }}\ntruc_runtime = {{ path = \"/repo/truc_runtime\" }}\nstatic_assertions = \"1\"\nserde = \"1\"\nserde_json = \"1\"\nbincode = \"1\"\n\n[features]\nhooks = [\"drvlib/hooks\", \"truc_runtime/verif-hooks\"]\nthreads = []\n\n[profile.dev]\ndebug = 1\ndebug-assertions = true\noverflow-checks = true\n\n[profile.release]\nopt-level = 3\ndebug = 1\ncodegen-units = 16\n"
    );
    write_if_changed(&dir.join("Cargo.toml"), &cargo);
    std::fs::create_dir_all(dir.join(".cargo")).unwrap();
    write_if_changed(&dir.join(".cargo").join("config.toml"), "[net]\noffline = true\n");
    if !dir.join("Cargo.lock").exists() {
        let _ = std::fs::copy("/verif/harness/Cargo.lock", dir.join("Cargo.lock"));
    }
    std::fs::write(dir.join("manifest.json"), serde_json::to_string_pretty(&serde_json::json!({"seed": seed, "modules": manifest, "emitted": emitted, "caps": caps})).unwrap()).unwrap();
    println!("{}", serde_json::json!({"emitted": emitted, "specs": specs.len(), "dir": dir}));
}


fn type_name_shape_definitions() -> Vec<(String, RecordDefinition<NativeDatumDetails>)> {
    let mut out = Vec::new();
    {
        let mut b: Builder = NativeRecordDefinitionBuilder::new(HostTypeResolver);
        b.add_datum::<Vec<(String, u32)>, _>("pairs").unwrap();
        b.add_datum::<Option<[String; 2]>, _>("two").unwrap();
        b.add_datum::<Box<[Vec<u8>]>, _>("rows").unwrap();
        b.close_record_variant();
        b.add_datum::<Vec<Box<(String, Vec<Option<String>>)>>, _>("deep").unwrap();
        b.add_datum::<Result<(Box<str>, [Option<Box<u64>>; 3]), Vec<(u8, String)>>, _>("either").unwrap();
        b.add_datum::<(Vec<String>, (Option<String>, [Box<str>; 2])), _>("tuple").unwrap();
        b.close_record_variant_with(nvariant::basic);
        b.add_datum::<Option<(String, Vec<(vtypes::Tracked, String)>)>, _>("user").unwrap();
        b.add_datum::<[(Option<String>, Vec<(String, String)>); 2], _>("arr").unwrap();
        b.close_record_variant();
        out.push((
            "standard paths nested in tuples, arrays and slices used as generic arguments (clone + serde capable)".to_owned(),
            b.build(),
        ));
    }
    {
        // generic paths that the resolver does not shorten (they are nameable as recorded: `core`
        // is always in scope) whose *arguments* are paths it must shorten (`alloc::…` is not
        // nameable from a crate without `extern crate alloc`, and the including crate has none)
        use std::cell::RefCell;
        use std::marker::PhantomData;
        let mut b: Builder = NativeRecordDefinitionBuilder::new(HostTypeResolver);
        b.add_datum::<RefCell<Vec<String>>, _>("log").unwrap();
        b.add_datum::<u32, _>("n").unwrap();
        b.close_record_variant();
        b.add_datum::<RefCell<Box<str>>, _>("text").unwrap();
        b.add_datum::<PhantomData<Vec<String>>, _>("marker").unwrap();
        b.add_datum::<Option<RefCell<(String, Vec<Box<u64>>)>>, _>("maybe").unwrap();
        b.close_record_variant_with(nvariant::basic);
        b.add_datum::<[RefCell<String>; 2], _>("cells").unwrap();
        b.add_datum::<(RefCell<Vec<u8>>, u8), _>("pair").unwrap();
        b.add_datum::<Vec<RefCell<Option<String>>>, _>("many").unwrap();
        b.close_record_variant();
        out.push((
            "unshortened generic paths (core::cell::RefCell, core::marker::PhantomData) with standard-path arguments, in a crate without `extern crate alloc` (clone + serde capable)".to_owned(),
            b.build(),
        ));
    }
    out
}

/// Every definition with each of the four fragment selections its field types support: the
/// generated text only (no driver), for a type-check by the real compiler.
fn mode_all_fragsets(specs: &[GSpec], seed: u64, dir: &std::path::Path) {
    std::fs::create_dir_all(dir.join("src")).unwrap();
    let mut manifest = Vec::new();
    let mut main = String::from("// generated by `layoutmon emit --all-fragsets`\n#![allow(clippy::all)]\n#[macro_use]\nextern crate static_assertions;\n");
    let mut k = 0;
    let mut emitted = 0;
    for (si, spec) in specs.iter().enumerate() {
        let serde_ok = spec.reqs.iter().all(|r| match r {
            GReq::Add { pal, .. } => PALETTE[*pal].serde,
            _ => true,
        });
        for fragset in 0..7 {
            if fragset < 4 && fragset & 2 != 0 && !serde_ok {
                continue;
            }
            let name = format!("m{}", k);
            let alt = si % 2 == 1;
            k += 1;
            let fragments = if fragset < 4 { FRAGSETS[fragset] } else { EXTRA_FRAGSETS[fragset - 4] };
            let text = std::panic::catch_unwind(|| {
                build_spec(spec).map(|b| generate(&b.def, &if fragset < 4 { config_for_alt(fragset, alt) } else { config_extra(fragset - 4) }))
            });
            match text {
                Ok(Ok(text)) => {
                    write_if_changed(&dir.join("src").join(format!("{}.rs", name)), &text);
                    let _ = writeln!(main, "#[allow(dead_code, unused_imports, unused_variables, clippy::all)]\nmod {name} {{ include!(\"{name}.rs\"); }}");
                    manifest.push(serde_json::json!({"module": name, "label": spec.label, "history": spec.text(), "fragments": fragments, "status": "emitted"}));
                    emitted += 1;
                }
                Ok(Err(e)) => manifest.push(serde_json::json!({"module": name, "label": spec.label, "history": spec.text(), "fragments": fragments, "status": format!("builder refused: {}", e)})),
                Err(_) => manifest.push(serde_json::json!({"module": name, "label": spec.label, "history": spec.text(), "fragments": fragments, "status": "builder or generator panicked"})),
            }
        }
    }
    // compile-only definitions whose field types nest the standard paths inside tuples, arrays,
    // slices and function pointers used as generic arguments (the names the resolver records for
    // them are what the generated text is made of)
    for (label, def) in type_name_shape_definitions() {
        for fragset in [0usize, 1, 3] {
            let name = format!("m{}", k);
            k += 1;
            let text = std::panic::catch_unwind(|| generate(&def, &config_for_alt(fragset, fragset == 1)));
            match text {
                Ok(text) => {
                    write_if_changed(&dir.join("src").join(format!("{}.rs", name)), &text);
                    let _ = writeln!(main, "#[allow(dead_code, unused_imports, unused_variables, clippy::all)]\nmod {name} {{ include!(\"{name}.rs\"); }}");
                    manifest.push(serde_json::json!({"module": name, "label": label, "history": label, "fragments": FRAGSETS[fragset], "status": "emitted"}));
                    emitted += 1;
                }
                Err(_) => manifest.push(serde_json::json!({"module": name, "label": label, "history": label, "fragments": FRAGSETS[fragset], "status": "generator panicked"})),
            }
        }
    }
    main.push_str("fn main() {}\n");
    write_if_changed(&dir.join("src").join("main.rs"), &main);
    let cargo = "[package]\nname = \"gencheck\"\nversion = \"0.1.0\"\nedition = \"2021\"\n\n[workspace]\n\n[dependencies]\nvtypes = { path = \"/verif/harness/vtypes\" }\ntruc_runtime = { path = \"/repo/truc_runtime\" }\nstatic_assertions = \"1\"\nserde = \"1\"\nserde_json = \"1\"\nbincode = \"1\"\n";
    write_if_changed(&dir.join("Cargo.toml"), cargo);
    std::fs::create_dir_all(dir.join(".cargo")).unwrap();
    write_if_changed(&dir.join(".cargo").join("config.toml"), "[net]\noffline = true\n");
    if !dir.join("Cargo.lock").exists() {
        let _ = std::fs::copy("/verif/harness/Cargo.lock", dir.join("Cargo.lock"));
    }
    std::fs::write(dir.join("manifest.json"), serde_json::to_string_pretty(&serde_json::json!({"seed": seed, "modules": manifest, "emitted": emitted})).unwrap()).unwrap();
    println!("{}", serde_json::json!({"emitted": emitted, "dir": dir}));
}
