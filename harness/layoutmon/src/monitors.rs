//! Online monitors over builder executions.

use std::collections::{BTreeMap, BTreeSet, HashMap, HashSet};
use std::panic::{catch_unwind, AssertUnwindSafe};

use serde::Serialize;
use truc::generator::{
    config::GeneratorConfig,
    fragment::{clone::CloneImplGenerator, serde::SerdeImplGenerator, FragmentGenerator},
    generate,
};
use truc::record::definition::{NativeDatumDetails, RecordDefinition};

use crate::hist::{History, Model, Outcome, Req};
use crate::sut::{apply, id_of, panic_text, Answer, DatumFacts, GenericSut, NativeSut, Sut};

#[derive(Clone, Debug, Serialize)]
pub struct Violation {
    pub property: String,
    pub kind: String,
    pub detail: String,
    pub history: History,
    pub history_text: String,
}

impl Violation {
    pub fn new(property: &str, kind: &str, detail: String, hist: &History) -> Self {
        Violation {
            property: property.to_owned(),
            kind: kind.to_owned(),
            detail,
            history: hist.clone(),
            history_text: hist.text(),
        }
    }
}

#[derive(Clone, Debug, Default, Serialize)]
pub struct Stats {
    pub histories: u64,
    pub requests: u64,
    pub closes_observed: u64,
    pub variants_checked: u64,
    pub data_checked: u64,
    pub datum_pairs_compared: u64,
    pub zero_size_data: u64,
    pub odd_size_data: u64,
    pub gap_fills: u64,
    pub orphans: u64,
    pub snapshot_comparisons: u64,
    pub definitions_built: u64,
    pub displays: u64,
    pub generate_calls: u64,
    pub generated_texts_not_parsed: u64,
    pub generated_offsets_compared: u64,
    pub generated_bytes: u64,
    pub max_variants_seen: u64,
    pub max_data_in_variant: u64,
    pub strategy_mixed_histories: u64,
    pub model_comparisons: u64,
    pub rejected_requests: u64,
    pub name_lookups: u64,
    pub by_origin: BTreeMap<String, u64>,
}

pub const FRAGSETS: [&str; 4] = ["default", "clone", "serde", "clone+serde"];

pub fn config_for(fragset: usize) -> GeneratorConfig {
    let mut custom: Vec<Box<dyn FragmentGenerator>> = Vec::new();
    if fragset & 1 != 0 {
        custom.push(Box::new(CloneImplGenerator));
    }
    if fragset & 2 != 0 {
        custom.push(Box::new(SerdeImplGenerator));
    }
    GeneratorConfig::default_with_custom_generators(custom)
}

/// Same fragments reached through the other public ways of building a configuration:
/// `GeneratorConfig::default()` when there is no custom fragment, the custom fragments in the
/// opposite order otherwise. The generated modules alternate between the two.
pub fn config_for_alt(fragset: usize, alt: bool) -> GeneratorConfig {
    if !alt {
        return config_for(fragset);
    }
    let mut custom: Vec<Box<dyn FragmentGenerator>> = Vec::new();
    if fragset & 2 != 0 {
        custom.push(Box::new(SerdeImplGenerator));
    }
    if fragset & 1 != 0 {
        custom.push(Box::new(CloneImplGenerator));
    }
    if custom.is_empty() {
        GeneratorConfig::default()
    } else {
        GeneratorConfig::default_with_custom_generators(custom)
    }
}

/// A fragment generator of the kind a user of the library writes: one constant per variant that
/// lists the names of its fields.
pub struct UserFragment;

impl FragmentGenerator for UserFragment {
    fn imports(&self, scope: &mut codegen::Scope) {
        scope.import("std::marker", "PhantomData");
    }

    fn generate(&self, specs: &truc::generator::fragment::FragmentGeneratorSpecs, scope: &mut codegen::Scope) {
        let names: Vec<String> = specs.record.data.iter().map(|d| format!("{:?}", d.name())).collect();
        scope.raw(format!(
            "pub const VERIF_FIELD_NAMES_{}: (&[&str], bool, PhantomData<u8>) = (&[{}], {}, PhantomData);",
            specs.record.variant.id(),
            names.join(", "),
            specs.prev_record.is_some()
        ));
    }
}

pub const EXTRA_FRAGSETS: [&str; 3] = [
    "none (GeneratorConfig::new with an empty list)",
    "a user-supplied fragment alone (GeneratorConfig::new)",
    "default + a user-supplied fragment",
];

/// Selections beyond the optional shipped fragments, all reachable through the public API.
pub fn config_extra(k: usize) -> GeneratorConfig {
    match k {
        0 => GeneratorConfig::new(Vec::<Box<dyn FragmentGenerator>>::new()),
        1 => GeneratorConfig::new(vec![Box::new(UserFragment) as Box<dyn FragmentGenerator>]),
        _ => GeneratorConfig::default_with_custom_generators(vec![Box::new(UserFragment) as Box<dyn FragmentGenerator>]),
    }
}

/// Facts of the data of one variant list.
fn check_variant_list(
    label: &str,
    facts: &[DatumFacts],
    hist: &History,
    stats: &mut Stats,
    out: &mut Vec<Violation>,
) {
    stats.variants_checked += 1;
    stats.data_checked += facts.len() as u64;
    stats.max_data_in_variant = stats.max_data_in_variant.max(facts.len() as u64);
    // duplicates in the list
    let mut seen = BTreeSet::new();
    for f in facts {
        if !seen.insert(f.id) {
            out.push(Violation::new(
                "C12",
                "duplicate-datum-in-variant",
                format!("{}: datum {} listed twice", label, f.id),
                hist,
            ));
        }
    }
    for f in facts {
        if f.size == 0 {
            stats.zero_size_data += 1;
        } else if f.size % f.align != 0 {
            stats.odd_size_data += 1;
        }
        if f.offset == usize::MAX {
            out.push(Violation::new(
                "C02",
                "unplaced-datum",
                format!("{}: datum {} ({}) has no offset", label, f.id, f.name),
                hist,
            ));
            continue;
        }
        if f.align == 0 || f.offset % f.align != 0 {
            out.push(Violation::new(
                "C02",
                "misaligned-offset",
                format!(
                    "{}: datum {} ({}/{}) at offset {}",
                    label, f.id, f.size, f.align, f.offset
                ),
                hist,
            ));
        }
    }
    // address order of the non-zero-size data
    let nz: Vec<&DatumFacts> = facts
        .iter()
        .filter(|f| f.size > 0 && f.offset != usize::MAX)
        .collect();
    for w in nz.windows(2) {
        let (a, b) = (w[0], w[1]);
        if !(a.offset < b.offset && a.offset + a.size <= b.offset) {
            out.push(Violation::new(
                "C02",
                "not-in-address-order",
                format!(
                    "{}: datum {} [{}..{}) listed before datum {} [{}..{})",
                    label,
                    a.id,
                    a.offset,
                    a.offset + a.size,
                    b.id,
                    b.offset,
                    b.offset + b.size
                ),
                hist,
            ));
        }
    }
    // pairwise disjointness
    for i in 0..nz.len() {
        for j in (i + 1)..nz.len() {
            stats.datum_pairs_compared += 1;
            let (a, b) = (nz[i], nz[j]);
            if a.offset < b.offset + b.size && b.offset < a.offset + a.size {
                out.push(Violation::new(
                    "C01",
                    "byte-overlap",
                    format!(
                        "{}: datum {} [{}..{}) overlaps datum {} [{}..{})",
                        label,
                        a.id,
                        a.offset,
                        a.offset + a.size,
                        b.id,
                        b.offset,
                        b.offset + b.size
                    ),
                    hist,
                ));
            }
        }
    }
}

/// Per-history flags used for the non-triviality rules.
#[derive(Clone, Copy, Debug, Default)]
pub struct HistFlags {
    pub variants: usize,
    pub gap_filled: bool,
    pub multi_datum_close: bool,
    pub carried_over: bool,
    pub has_orphan: bool,
    pub has_zst: bool,
    pub mixed_strats: bool,
    pub built: bool,
    pub generated: bool,
}

pub struct LayoutRun<'a> {
    pub stats: &'a mut Stats,
    pub violations: &'a mut Vec<Violation>,
    /// generate() is called for histories whose digest is a multiple of this (0 = never)
    pub generate_every: u64,
}

fn defn_facts(def: &RecordDefinition<NativeDatumDetails>, id: usize) -> DatumFacts {
    let d = &def[crate::sut::did(id)];
    DatumFacts {
        id,
        name: d.name().to_owned(),
        offset: d.details().offset(),
        size: d.details().size(),
        align: d.details().type_align(),
        uninit: d.details().allow_uninit(),
        type_name: d.details().type_name().to_owned(),
    }
}

/// Extracts `MAX_SIZE` and every `repr(align(A))` from generated text.
pub fn parse_generated(text: &str) -> (Option<usize>, Vec<usize>) {
    let mut max_size = None;
    let mut aligns = Vec::new();
    for line in text.lines() {
        let l = line.trim();
        if let Some(rest) = l.strip_prefix("pub const MAX_SIZE: usize = ") {
            max_size = rest.trim_end_matches(';').trim().parse().ok();
        } else if let Some(rest) = l.strip_prefix("#[repr(align(") {
            if let Some(n) = rest.split(')').next() {
                if let Ok(n) = n.parse() {
                    aligns.push(n);
                }
            }
        }
    }
    (max_size, aligns)
}

/// Offsets that the generated text hands to the buffer primitives (`read` / `write` / `get` /
/// `get_mut`). Returns `None` as soon as one of them is not a plain integer literal (the text is
/// then not understood and decides nothing).
pub fn offsets_in_generated(text: &str) -> Option<BTreeSet<usize>> {
    let mut out = BTreeSet::new();
    for line in text.lines() {
        let arg: Option<&str> = if let Some(i) = line.find("data.write(") {
            line[i + "data.write(".len()..].split(',').next()
        } else if let Some(i) = line.find("data.read(") {
            line[i + "data.read(".len()..].split(')').next()
        } else if line.contains("data.get::<") || line.contains("data.get_mut::<") {
            line.rfind(">(").and_then(|i| line[i + 2..].split(')').next())
        } else {
            None
        };
        if let Some(a) = arg {
            let a = a.trim();
            // a literal as the compiler reads it: digits, `_` separators, optional `usize`
            let a = a.strip_suffix("usize").unwrap_or(a);
            if a.is_empty() || !a.chars().all(|c| c.is_ascii_digit() || c == '_') || a.starts_with('_') {
                return None;
            }
            match a.replace('_', "").parse::<usize>() {
                Ok(n) => {
                    out.insert(n);
                }
                Err(_) => return None,
            }
        }
    }
    Some(out)
}

/// Runs one valid history on the native builder with the layout monitors (C01, C02, C03, C13).
pub fn run_layout(hist: &History, run: &mut LayoutRun) -> HistFlags {
    let mut flags = HistFlags::default();
    let stats = &mut *run.stats;
    let out = &mut *run.violations;
    stats.histories += 1;
    *stats.by_origin.entry(hist.origin.split(':').next().unwrap_or("").to_owned()).or_default() += 1;

    let mut sut = NativeSut::new();
    let mut issued: Vec<usize> = Vec::new();
    let mut placed: HashMap<usize, usize> = HashMap::new(); // id -> offset at first close
    let mut in_variant: HashSet<usize> = HashSet::new();
    let mut prev_list: Vec<usize> = Vec::new();
    let mut strats_seen = BTreeSet::new();
    let mut removed_pending: HashSet<usize> = HashSet::new();

    for req in &hist.reqs {
        stats.requests += 1;
        let before_variants = sut.nvariants;
        let answer = apply(&mut sut, hist, req, &mut issued);
        match (&answer, req) {
            (Answer::Panicked(p), _) => {
                out.push(Violation::new(
                    "C13",
                    "builder-panic",
                    format!("request {:?} panicked: {}", req, p),
                    hist,
                ));
                return flags;
            }
            (Answer::Rejected(e), _) => {
                // layout histories are valid by construction
                out.push(Violation::new(
                    "C12",
                    "valid-request-rejected",
                    format!("request {:?} rejected: {}", req, e),
                    hist,
                ));
                return flags;
            }
            (Answer::Removed, Req::Remove { k }) => {
                if let Some(id) = issued.get(*k) {
                    if !in_variant.contains(id) {
                        removed_pending.insert(*id);
                    }
                }
            }
            (Answer::Closed(_), Req::Close { strat }) => {
                strats_seen.insert(*strat);
                if sut.nvariants == before_variants {
                    continue; // nothing pending: no new variant
                }
                stats.closes_observed += 1;
                let list = sut.variant(sut.nvariants - 1).unwrap_or_default();
                let facts: Vec<DatumFacts> =
                    list.iter().filter_map(|id| sut.facts(*id)).collect();
                let label = format!("close #{} [{}]", sut.nvariants - 1, strat.tag());
                check_variant_list(&label, &facts, hist, stats, out);
                // current data must be the list just closed
                let cur = sut.current();
                if cur != list {
                    out.push(Violation::new(
                        "C12",
                        "current-data-differs-from-closed-variant",
                        format!("{}: current {:?} vs variant {:?}", label, cur, list),
                        hist,
                    ));
                }
                if facts.iter().filter(|f| f.size > 0).count() >= 2 {
                    flags.multi_datum_close = true;
                }
                // gap fill: a new datum placed below the end of the carried-over data
                let carried: Vec<&DatumFacts> =
                    facts.iter().filter(|f| prev_list.contains(&f.id)).collect();
                if !carried.is_empty() {
                    flags.carried_over = true;
                }
                let prev_end = carried
                    .iter()
                    .filter(|f| f.offset != usize::MAX)
                    .map(|f| f.offset + f.size)
                    .max()
                    .unwrap_or(0);
                for f in &facts {
                    if !prev_list.contains(&f.id) && f.size > 0 && f.offset < prev_end {
                        flags.gap_filled = true;
                        stats.gap_fills += 1;
                    }
                    if f.size == 0 {
                        flags.has_zst = true;
                    }
                }
                // C03: nothing that was ever in a closed variant moved
                for (id, off) in &placed {
                    stats.snapshot_comparisons += 1;
                    let now = sut.facts(*id).map(|f| f.offset);
                    if now != Some(*off) {
                        out.push(Violation::new(
                            "C03",
                            "datum-moved",
                            format!(
                                "{}: datum {} was at offset {} when first closed, now {:?}",
                                label, id, off, now
                            ),
                            hist,
                        ));
                    }
                }
                for f in &facts {
                    placed.entry(f.id).or_insert(f.offset);
                    in_variant.insert(f.id);
                }
                prev_list = list;
            }
            _ => {}
        }
    }
    flags.variants = sut.nvariants;
    flags.mixed_strats = strats_seen.len() > 1;
    if flags.mixed_strats {
        stats.strategy_mixed_histories += 1;
    }
    flags.has_orphan = removed_pending.iter().any(|id| !in_variant.contains(id));
    if flags.has_orphan {
        stats.orphans += 1;
    }
    stats.max_variants_seen = stats.max_variants_seen.max(sut.nvariants as u64);

    // build (valid histories end closed)
    let def = match sut.build() {
        Ok(def) => def,
        Err(p) => {
            out.push(Violation::new(
                "C13",
                "build-panic",
                format!("build() panicked: {}", p),
                hist,
            ));
            return flags;
        }
    };
    flags.built = true;
    stats.definitions_built += 1;
    check_definition(&def, hist, &placed, run, &mut flags);
    flags
}

/// Definition-level monitors: C01/C02/C03 over every variant, capacity, alignment, C13 panic
/// freedom of Display / max_size / max_type_align / generate.
pub fn check_definition(
    def: &RecordDefinition<NativeDatumDetails>,
    hist: &History,
    placed: &HashMap<usize, usize>,
    run: &mut LayoutRun,
    flags: &mut HistFlags,
) {
    let stats = &mut *run.stats;
    let out = &mut *run.violations;
    let max_size = catch_unwind(AssertUnwindSafe(|| def.max_size()));
    let max_align = catch_unwind(AssertUnwindSafe(|| def.max_type_align()));
    let display = catch_unwind(AssertUnwindSafe(|| def.to_string()));
    stats.displays += 1;
    let max_size = match max_size {
        Ok(v) => Some(v),
        Err(p) => {
            out.push(Violation::new(
                "C13",
                "max_size-panic",
                panic_text(p),
                hist,
            ));
            None
        }
    };
    let max_align = match max_align {
        Ok(v) => Some(v),
        Err(p) => {
            out.push(Violation::new(
                "C13",
                "max_type_align-panic",
                panic_text(p),
                hist,
            ));
            None
        }
    };
    if let Err(p) = display {
        out.push(Violation::new(
            "C13",
            "display-panic",
            panic_text(p),
            hist,
        ));
    }
    let mut all_facts: Vec<Vec<DatumFacts>> = Vec::new();
    for variant in def.variants() {
        let facts: Vec<DatumFacts> = variant.data().map(|d| defn_facts(def, id_of(d))).collect();
        let label = format!("definition variant {}", variant.id());
        check_variant_list(&label, &facts, hist, stats, out);
        for f in &facts {
            if f.offset == usize::MAX {
                continue;
            }
            if let Some(ms) = max_size {
                if f.offset + f.size > ms {
                    out.push(Violation::new(
                        "C02",
                        "beyond-capacity",
                        format!(
                            "{}: datum {} ends at {} > max_size() {}",
                            label,
                            f.id,
                            f.offset + f.size,
                            ms
                        ),
                        hist,
                    ));
                }
            }
            if let Some(ma) = max_align {
                if f.align == 0 || ma % f.align != 0 {
                    out.push(Violation::new(
                        "C02",
                        "record-alignment-too-small",
                        format!(
                            "{}: max_type_align() {} is not a multiple of datum {} alignment {}",
                            label, ma, f.id, f.align
                        ),
                        hist,
                    ));
                }
            }
            stats.snapshot_comparisons += 1;
            if let Some(off) = placed.get(&f.id) {
                if *off != f.offset {
                    out.push(Violation::new(
                        "C03",
                        "datum-moved",
                        format!(
                            "{}: datum {} was at offset {} when first closed, {} in the definition",
                            label, f.id, off, f.offset
                        ),
                        hist,
                    ));
                }
            }
        }
        all_facts.push(facts);
    }

    if run.generate_every != 0 && hist.digest() % run.generate_every == 0 {
        flags.generated = true;
        for fragset in 0..4 {
            let r = catch_unwind(AssertUnwindSafe(|| generate(def, &config_for(fragset))));
            stats.generate_calls += 1;
            match r {
                Err(p) => out.push(Violation::new(
                    "C13",
                    "generate-panic",
                    format!("fragments {}: {}", FRAGSETS[fragset], panic_text(p)),
                    hist,
                )),
                Ok(text) => {
                    stats.generated_bytes += text.len() as u64;
                    // the offsets the generated code uses are the offsets of the definition
                    match offsets_in_generated(&text) {
                        None => stats.generated_texts_not_parsed += 1,
                        Some(used) => {
                            let defined: BTreeSet<usize> = all_facts.iter().flatten().map(|f| f.offset).collect();
                            stats.generated_offsets_compared += used.len() as u64;
                            for u in used.difference(&defined) {
                                out.push(Violation::new(
                                    "C04",
                                    "generated-code-uses-an-offset-no-datum-has",
                                    format!("fragments {}: offset {} is handed to the record buffer, the definition has data at {:?}", FRAGSETS[fragset], u, defined.iter().take(40).collect::<Vec<_>>()),
                                    hist,
                                ));
                            }
                            for d in defined.difference(&used) {
                                out.push(Violation::new(
                                    "C04",
                                    "datum-offset-never-used-by-generated-code",
                                    format!("fragments {}: the datum at offset {} is never accessed at that offset", FRAGSETS[fragset], d),
                                    hist,
                                ));
                            }
                        }
                    }
                    let (ms, aligns) = parse_generated(&text);
                    match ms {
                        // the text could not be parsed: decides nothing (the compiled modules of
                        // engine B measure the capacity for real)
                        None => stats.generated_texts_not_parsed += 1,
                        Some(ms) => {
                            for facts in &all_facts {
                                for f in facts {
                                    if f.offset != usize::MAX && f.offset + f.size > ms {
                                        out.push(Violation::new(
                                            "C02",
                                            "beyond-published-capacity",
                                            format!(
                                                "datum {} ends at {} > published MAX_SIZE {}",
                                                f.id,
                                                f.offset + f.size,
                                                ms
                                            ),
                                            hist,
                                        ));
                                    }
                                }
                            }
                        }
                    }
                    if aligns.windows(2).any(|w| w[0] != w[1]) {
                        out.push(Violation::new(
                            "C03",
                            "record-alignments-differ",
                            format!("fragments {}: {:?}", FRAGSETS[fragset], aligns),
                            hist,
                        ));
                    }
                    for a in &aligns {
                        for facts in &all_facts {
                            for f in facts {
                                if f.align == 0 || a % f.align != 0 {
                                    out.push(Violation::new(
                                        "C02",
                                        "imposed-alignment-too-small",
                                        format!(
                                            "repr(align({})) is not a multiple of datum {} alignment {}",
                                            a, f.id, f.align
                                        ),
                                        hist,
                                    ));
                                }
                            }
                        }
                    }
                }
            }
        }
    }
}

/// Full observable state of a builder, as compared with the model after every request.
#[derive(Clone, Debug, PartialEq, Eq)]
pub struct Observation {
    pub current: Vec<usize>,
    pub variants: Vec<Vec<usize>>,
    pub names: Vec<Option<String>>,
    pub facts: Vec<Option<DatumFacts>>,
    pub current_by_name: Vec<Option<usize>>,
    pub variant_by_name: Vec<Vec<Option<usize>>>,
}

fn observe<S: Sut>(sut: &S, nvariants: usize, ndata: usize, names: &[String]) -> Observation {
    Observation {
        current: sut.current(),
        variants: (0..nvariants)
            .map(|v| sut.variant(v).unwrap_or_default())
            .collect(),
        names: (0..ndata).map(|id| sut.name_of(id)).collect(),
        facts: (0..ndata).map(|id| sut.facts(id)).collect(),
        current_by_name: names.iter().map(|n| sut.current_by_name(n)).collect(),
        variant_by_name: (0..nvariants)
            .map(|v| names.iter().map(|n| sut.variant_by_name(v, n)).collect())
            .collect(),
    }
}

#[derive(Clone, Copy, Debug, Default)]
pub struct BuilderFlags {
    pub rejected: usize,
    pub variants: usize,
    pub noop_closes: usize,
    pub name_clashes: usize,
    pub pending_removed: usize,
    pub build_refused: bool,
}

/// Runs one (possibly hostile) history against a builder, comparing with the reference model
/// after every request (C12).
pub fn run_builder<S: Sut>(
    mut sut: S,
    which: &str,
    hist: &History,
    stats: &mut Stats,
    out: &mut Vec<Violation>,
) -> (S, Model, BuilderFlags) {
    let mut flags = BuilderFlags::default();
    let mut model = Model::default();
    let mut issued: Vec<usize> = Vec::new(); // real
    let mut model_issued: Vec<usize> = Vec::new();
    let pool: Vec<String> = {
        let mut set = BTreeSet::new();
        for r in &hist.reqs {
            if let Req::Add { name, .. } = r {
                set.insert(hist.name_of(*name));
            }
        }
        set.insert("never_used".to_owned());
        set.into_iter().collect()
    };
    stats.histories += 1;
    *stats.by_origin.entry(format!("{}:{}", which, hist.origin.split(':').next().unwrap_or(""))).or_default() += 1;
    let mut all_ids: BTreeSet<usize> = BTreeSet::new();

    for (step, req) in hist.reqs.iter().enumerate() {
        stats.requests += 1;
        let before = match catch_unwind(AssertUnwindSafe(|| observe(&sut, model.variants.len(), model.names.len(), &pool))) {
            Ok(o) => o,
            Err(p) => {
                out.push(Violation::new(
                    "C12",
                    "observation-panicked",
                    format!("{} before step {}: looking up data the model knows panicked: {}", which, step, panic_text(p)),
                    hist,
                ));
                return (sut, model, flags);
            }
        };
        // model
        let expected = match req {
            Req::Add { name, .. } => {
                let o = model.add(&hist.name_of(*name));
                if let Outcome::Added(id) = o {
                    model_issued.push(id);
                } else {
                    flags.name_clashes += 1;
                }
                o
            }
            Req::Remove { k } => match model_issued.get(*k) {
                Some(id) => {
                    let pending = model.to_add.contains(id);
                    let o = model.remove(*id);
                    if pending && o == Outcome::Removed {
                        flags.pending_removed += 1;
                    }
                    o
                }
                None => Outcome::Rejected,
            },
            Req::RemoveRaw { id } => model.remove(*id),
            Req::Close { .. } => {
                let o = model.close();
                if let Outcome::Closed { new: false, .. } = o {
                    flags.noop_closes += 1;
                }
                o
            }
        };
        // implementation
        let answer = apply(&mut sut, hist, req, &mut issued);
        let ok = match (&expected, &answer) {
            (Outcome::Added(e), Answer::Added(a)) => {
                if !all_ids.insert(*a) {
                    out.push(Violation::new(
                        "C12",
                        "identifier-reused",
                        format!("{} step {}: add returned identifier {} again", which, step, a),
                        hist,
                    ));
                }
                e == a
            }
            (Outcome::Removed, Answer::Removed) => true,
            (Outcome::Closed { variant, .. }, Answer::Closed(v)) => variant == v,
            (Outcome::Rejected, Answer::Rejected(_)) => {
                flags.rejected += 1;
                stats.rejected_requests += 1;
                true
            }
            _ => false,
        };
        if !ok {
            out.push(Violation::new(
                "C12",
                "answer-differs-from-model",
                format!(
                    "{} step {} {:?}: model {:?}, builder {:?}",
                    which, step, req, expected, answer
                ),
                hist,
            ));
            return (sut, model, flags);
        }
        // state comparison
        stats.model_comparisons += 1;
        let after = match catch_unwind(AssertUnwindSafe(|| observe(&sut, model.variants.len(), model.names.len(), &pool))) {
            Ok(o) => o,
            Err(p) => {
                out.push(Violation::new(
                    "C12",
                    "observation-panicked",
                    format!("{} after step {} {:?}: looking up data the model knows panicked: {}", which, step, req, panic_text(p)),
                    hist,
                ));
                return (sut, model, flags);
            }
        };
        stats.name_lookups += (pool.len() * (1 + model.variants.len())) as u64;
        if matches!(expected, Outcome::Rejected) && after != before {
            out.push(Violation::new(
                "C12",
                "rejected-request-changed-state",
                format!(
                    "{} step {} {:?}: before {:?} after {:?}",
                    which, step, req, before, after
                ),
                hist,
            ));
        }
        if let Outcome::Closed { new: false, .. } = expected {
            if after != before {
                out.push(Violation::new(
                    "C12",
                    "noop-close-changed-state",
                    format!("{} step {}: before {:?} after {:?}", which, step, before, after),
                    hist,
                ));
            }
        }
        let mut problems: Vec<String> = Vec::new();
        let cur: BTreeSet<usize> = after.current.iter().copied().collect();
        if cur.len() != after.current.len() {
            problems.push(format!("current data has duplicates: {:?}", after.current));
        }
        if cur != model.current() {
            problems.push(format!(
                "current data {:?} vs model {:?}",
                after.current,
                model.current()
            ));
        }
        for (v, list) in after.variants.iter().enumerate() {
            let set: BTreeSet<usize> = list.iter().copied().collect();
            if set.len() != list.len() {
                problems.push(format!("variant {} has duplicates: {:?}", v, list));
            }
            if set != model.variants[v] {
                problems.push(format!(
                    "variant {} is {:?}, model says {:?}",
                    v, list, model.variants[v]
                ));
            }
            // names unique within the variant
            let mut names = BTreeSet::new();
            for id in list {
                if let Some(Some(n)) = after.names.get(*id) {
                    if !names.insert(n.clone()) {
                        problems.push(format!("variant {} holds name {} twice", v, n));
                    }
                }
            }
        }
        if sut.variant(model.variants.len()).is_some() && which == "generic" {
            problems.push(format!(
                "builder has more than the {} variants of the model",
                model.variants.len()
            ));
        }
        for (id, name) in after.names.iter().enumerate() {
            if name.as_deref() != Some(model.names[id].as_str()) {
                problems.push(format!(
                    "datum {} is named {:?}, model says {}",
                    id, name, model.names[id]
                ));
            }
        }
        {
            let mut names = BTreeSet::new();
            for id in &after.current {
                if let Some(Some(n)) = after.names.get(*id) {
                    if !names.insert(n.clone()) {
                        problems.push(format!("current variant holds name {} twice", n));
                    }
                }
            }
        }
        for (i, name) in pool.iter().enumerate() {
            let expect = model.by_name(&model.current(), name);
            if after.current_by_name[i] != expect {
                problems.push(format!(
                    "current lookup of {} gives {:?}, model {:?}",
                    name, after.current_by_name[i], expect
                ));
            }
            for v in 0..model.variants.len() {
                let expect = model.by_name(&model.variants[v], name);
                if after.variant_by_name[v][i] != expect {
                    problems.push(format!(
                        "lookup of {} in variant {} gives {:?}, model {:?}",
                        name, v, after.variant_by_name[v][i], expect
                    ));
                }
            }
        }
        if !problems.is_empty() {
            out.push(Violation::new(
                "C12",
                "state-differs-from-model",
                format!("{} step {} {:?}: {}", which, step, req, problems.join("; ")),
                hist,
            ));
            return (sut, model, flags);
        }
    }
    flags.variants = model.variants.len();
    (sut, model, flags)
}

pub fn run_builder_both(hist: &History, stats: &mut Stats, out: &mut Vec<Violation>) -> BuilderFlags {
    // native
    let (nsut, model, mut flags) = run_builder(NativeSut::new(), "native", hist, stats, out);
    let pending = model.pending();
    let r = nsut.build();
    match (pending, &r) {
        (true, Ok(_)) => out.push(Violation::new(
            "C12",
            "build-accepted-unclosed-changes",
            "native: build() returned although changes are pending".to_owned(),
            hist,
        )),
        (false, Err(p)) => out.push(Violation::new(
            "C12",
            "build-refused-closed-definition",
            format!("native: build() panicked: {}", p),
            hist,
        )),
        (true, Err(_)) => flags.build_refused = true,
        (false, Ok(def)) => {
            stats.definitions_built += 1;
            compare_definition_with_model(
                "native",
                def.variants()
                    .map(|v| v.data().map(id_of).collect::<Vec<_>>())
                    .collect(),
                def.datum_definitions()
                    .map(|d| (id_of(d.id()), d.name().to_owned()))
                    .collect(),
                &model,
                hist,
                out,
            );
        }
    }
    // generic
    let (gsut, gmodel, gflags) = run_builder(GenericSut::new(), "generic", hist, stats, out);
    let r = gsut.build();
    match (gmodel.pending(), &r) {
        (true, Ok(_)) => out.push(Violation::new(
            "C12",
            "build-accepted-unclosed-changes",
            "generic: build() returned although changes are pending".to_owned(),
            hist,
        )),
        (false, Err(p)) => out.push(Violation::new(
            "C12",
            "build-refused-closed-definition",
            format!("generic: build() panicked: {}", p),
            hist,
        )),
        (false, Ok(def)) => {
            stats.definitions_built += 1;
            compare_definition_with_model(
                "generic",
                def.variants()
                    .map(|v| v.data().map(id_of).collect::<Vec<_>>())
                    .collect(),
                def.datum_definitions()
                    .map(|d| (id_of(d.id()), d.name().to_owned()))
                    .collect(),
                &gmodel,
                hist,
                out,
            );
        }
        _ => {}
    }
    flags.rejected += gflags.rejected;
    flags
}

fn compare_definition_with_model(
    which: &str,
    variants: Vec<Vec<usize>>,
    data: Vec<(usize, String)>,
    model: &Model,
    hist: &History,
    out: &mut Vec<Violation>,
) {
    if variants.len() != model.variants.len() {
        out.push(Violation::new(
            "C12",
            "definition-variant-count",
            format!(
                "{}: definition has {} variants, model {}",
                which,
                variants.len(),
                model.variants.len()
            ),
            hist,
        ));
        return;
    }
    for (v, list) in variants.iter().enumerate() {
        let set: BTreeSet<usize> = list.iter().copied().collect();
        if set != model.variants[v] || set.len() != list.len() {
            out.push(Violation::new(
                "C12",
                "definition-variant-differs",
                format!(
                    "{}: variant {} is {:?}, model {:?}",
                    which, v, list, model.variants[v]
                ),
                hist,
            ));
        }
    }
    let ids: Vec<usize> = data.iter().map(|d| d.0).collect();
    let expect: Vec<usize> = (0..model.names.len()).collect();
    if ids != expect {
        out.push(Violation::new(
            "C12",
            "definition-data-differs",
            format!("{}: data ids {:?}, model {:?}", which, ids, expect),
            hist,
        ));
    } else {
        for (id, name) in &data {
            if *name != model.names[*id] {
                out.push(Violation::new(
                    "C12",
                    "definition-datum-name",
                    format!("{}: datum {} named {}, model {}", which, id, name, model.names[*id]),
                    hist,
                ));
            }
        }
    }
}
