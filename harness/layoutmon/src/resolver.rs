//! C18: the layout depends only on the resolver's answers; type tables are faithful.

use std::collections::{BTreeMap, HashMap};
use std::panic::{catch_unwind, AssertUnwindSafe};

use truc::record::definition::{
    builder::native::{variant as nvariant, DatumDefinitionOverride, NativeRecordDefinitionBuilder},
    DatumId, NativeDatumDetails, RecordDefinition,
};
use truc::record::type_resolver::{
    DynamicTypeInfo, HostTypeResolver, StaticTypeResolver, TypeInfo, TypeResolver,
};
use vtypes::Rng;

use crate::hist::{History, Strat, STRATS};
use crate::monitors::{check_definition, HistFlags, LayoutRun, Stats, Violation};
use crate::sut::{id_of, panic_text};
use crate::{keep_violations, Args, Distinct, Report};

const NTYPES: usize = 19;
const COPY: [bool; NTYPES] = [
    true, true, true, true, true, true, true, true, true, true, false, false, false, true, true,
    true, true, true, false,
];

macro_rules! with_type {
    ($idx:expr, $f:ident, $($a:expr),*) => {
        match $idx {
            0 => $f::<u8>($($a),*),
            1 => $f::<u16>($($a),*),
            2 => $f::<u32>($($a),*),
            3 => $f::<u64>($($a),*),
            4 => $f::<u128>($($a),*),
            5 => $f::<usize>($($a),*),
            6 => $f::<i64>($($a),*),
            7 => $f::<f64>($($a),*),
            8 => $f::<bool>($($a),*),
            9 => $f::<char>($($a),*),
            10 => $f::<String>($($a),*),
            11 => $f::<Vec<u32>>($($a),*),
            12 => $f::<Box<str>>($($a),*),
            13 => $f::<[u8; 3]>($($a),*),
            14 => $f::<()>($($a),*),
            15 => $f::<Option<u32>>($($a),*),
            16 => $f::<[u64; 3]>($($a),*),
            17 => $f::<(u8, u32)>($($a),*),
            18 => $f::<Vec<()>>($($a),*),
            _ => unreachable!(),
        }
    };
}

macro_rules! with_copy_type {
    ($idx:expr, $f:ident, $($a:expr),*) => {
        match $idx {
            0 => $f::<u8>($($a),*),
            1 => $f::<u16>($($a),*),
            2 => $f::<u32>($($a),*),
            3 => $f::<u64>($($a),*),
            4 => $f::<u128>($($a),*),
            5 => $f::<usize>($($a),*),
            6 => $f::<i64>($($a),*),
            7 => $f::<f64>($($a),*),
            8 => $f::<bool>($($a),*),
            9 => $f::<char>($($a),*),
            13 => $f::<[u8; 3]>($($a),*),
            14 => $f::<()>($($a),*),
            15 => $f::<Option<u32>>($($a),*),
            16 => $f::<[u64; 3]>($($a),*),
            17 => $f::<(u8, u32)>($($a),*),
            _ => unreachable!(),
        }
    };
}

fn host_info<T>() -> TypeInfo {
    HostTypeResolver.type_info::<T>()
}

fn std_name<T>() -> String {
    std::any::type_name::<T>().to_owned()
}

type SynthBuilder<'a> = NativeRecordDefinitionBuilder<&'a StaticTypeResolver>;
type RefBuilder = NativeRecordDefinitionBuilder<HostTypeResolver>;

fn add_typed<T>(b: &mut SynthBuilder, name: &str) -> Result<DatumId, String> {
    b.add_datum::<T, _>(name)
}
fn add_typed_uninit<T: Copy>(b: &mut SynthBuilder, name: &str) -> Result<DatumId, String> {
    b.add_datum_allow_uninit::<T, _>(name)
}
fn add_override<T>(b: &mut SynthBuilder, name: &str, ov: DatumDefinitionOverride) -> Result<DatumId, String> {
    b.add_datum_override::<T, _>(name, ov)
}

/// Synthetic tables: answers that differ from the host's.
fn synth_table(kind: usize) -> (BTreeMap<String, DynamicTypeInfo>, Vec<TypeInfo>) {
    let mut map = BTreeMap::new();
    let mut infos = Vec::new();
    for idx in 0..NTYPES {
        let host = with_type!(idx, host_info,);
        let (size, align) = match kind {
            // a 32-bit target seen from a 64-bit host
            0 => match idx {
                3 | 6 | 7 => (8, 4),
                4 => (16, 4),
                5 => (4, 4),
                10 | 11 | 18 => (12, 4),
                12 => (8, 4),
                16 => (24, 4),
                _ => (host.size, host.align),
            },
            // deliberately odd answers: sizes that are not multiples of the alignment, zero sizes
            1 => ((idx * 5) % 23, 1usize << ((idx * 7) % 5)),
            // everything twice as aligned as on the host, sizes padded
            _ => (host.size + host.align, (host.align * 2).min(16)),
        };
        let info = TypeInfo {
            name: host.name.clone(),
            size,
            align,
        };
        map.insert(
            host.name.clone(),
            DynamicTypeInfo {
                info: info.clone(),
                allow_uninit: COPY[idx],
            },
        );
        infos.push(info);
    }
    (map, infos)
}

#[derive(Clone, Debug)]
enum Entry {
    Typed,
    TypedUninit,
    Dynamic { spelling: usize },
    Override { name: bool, size: Option<usize>, align: Option<usize>, uninit: Option<bool> },
    Copy { donor_uninit: bool },
}

#[derive(Clone, Debug)]
enum RReq {
    Add { ty: usize, entry: Entry },
    Remove { k: usize },
    Close { strat: Strat },
}

fn gen(rng: &mut Rng) -> Vec<RReq> {
    let nvariants = rng.range(1, 5);
    let mut reqs = Vec::new();
    let mut live: Vec<usize> = Vec::new();
    let mut issued = 0usize;
    for v in 0..nvariants {
        for k in live.clone() {
            if rng.chance(1, 4) {
                reqs.push(RReq::Remove { k });
                live.retain(|x| *x != k);
            }
        }
        let nadds = if v == 0 { rng.range(1, 7) } else { rng.range(0, 5) };
        // a few types only, so that the same type comes through several entry points
        let pool: Vec<usize> = (0..3).map(|_| rng.below(NTYPES)).collect();
        for _ in 0..nadds {
            let ty = if rng.chance(2, 3) { *rng.pick(&pool) } else { rng.below(NTYPES) };
            let entry = match rng.below(6) {
                0 | 1 => Entry::Typed,
                2 if COPY[ty] => Entry::TypedUninit,
                3 => Entry::Dynamic { spelling: rng.below(3) },
                4 => Entry::Override {
                    name: rng.chance(1, 2),
                    size: if rng.chance(1, 2) { Some(rng.range(0, 40)) } else { None },
                    align: if rng.chance(1, 2) { Some(1 << rng.below(5)) } else { None },
                    uninit: match rng.below(3) {
                        0 => None,
                        1 => Some(false),
                        _ => Some(true),
                    },
                },
                5 => Entry::Copy { donor_uninit: rng.chance(1, 2) },
                _ => Entry::Typed,
            };
            reqs.push(RReq::Add { ty, entry });
            live.push(issued);
            issued += 1;
        }
        reqs.push(RReq::Close { strat: if rng.chance(1, 2) { Strat::Simple } else { *rng.pick(&STRATS) } });
    }
    reqs
}

fn text(reqs: &[RReq]) -> String {
    reqs.iter().map(|r| format!("{:?}", r)).collect::<Vec<_>>().join("; ")
}

fn close<R: TypeResolver>(b: &mut NativeRecordDefinitionBuilder<R>, strat: Strat) {
    match strat {
        Strat::Simple => b.close_record_variant_with(nvariant::simple),
        Strat::Basic => b.close_record_variant_with(nvariant::basic),
        Strat::Append => b.close_record_variant_with(nvariant::append_data),
        Strat::AppendRev => b.close_record_variant_with(nvariant::append_data_reverse),
    };
}

fn facts(def: &RecordDefinition<NativeDatumDetails>) -> Vec<(usize, String, String, usize, usize, bool, i64)> {
    def.datum_definitions()
        .map(|d| {
            (
                id_of(d.id()),
                d.name().to_owned(),
                d.details().type_name().to_owned(),
                d.details().size(),
                d.details().type_align(),
                d.details().allow_uninit(),
                d.details().offset() as i64,
            )
        })
        .collect()
}

fn pseudo_history(reqs: &[RReq], kind: usize) -> History {
    History {
        reqs: Vec::new(),
        unique_names: true,
        origin: format!("resolver-differential table={} {}", kind, text(reqs)),
    }
}

/// For C19: a layout history replayed through the *typed* entry points of a builder whose
/// resolver is the synthetic table `kind` (each shape is mapped to one of the table's types).
/// Returns everything observable about the result as one text.
pub fn typed_replay(h: &History, kind: usize) -> Result<String, String> {
    let (map, _) = synth_table(kind);
    let table = StaticTypeResolver::from(map);
    let mut b: SynthBuilder = NativeRecordDefinitionBuilder::new(&table);
    let mut issued: Vec<DatumId> = Vec::new();
    for req in &h.reqs {
        match req {
            crate::hist::Req::Add { name, shape, uninit } => {
                let ty = (shape.size * 3 + shape.align) % NTYPES;
                let name = h.name_of(*name);
                let id = if *uninit && COPY[ty] {
                    with_copy_type!(ty, add_typed_uninit, &mut b, &name)?
                } else if shape.size % 4 == 1 {
                    let spelled = with_type!(ty, std_name,);
                    b.add_dynamic_datum(name.as_str(), spelled.as_str())?
                } else {
                    with_type!(ty, add_typed, &mut b, &name)?
                };
                issued.push(id);
            }
            crate::hist::Req::Remove { k } => match issued.get(*k) {
                Some(id) => b.remove_datum(*id)?,
                None => return Err("no such issued id".to_owned()),
            },
            crate::hist::Req::RemoveRaw { .. } => return Err("raw removal".to_owned()),
            crate::hist::Req::Close { strat } => close(&mut b, *strat),
        }
    }
    let def = b.build();
    Ok(format!(
        "{:?}\n{} {}\n{}\n{}",
        facts(&def),
        def.max_size(),
        def.max_type_align(),
        def,
        truc::generator::generate(&def, &truc::generator::config::GeneratorConfig::default())
    ))
}

/// One differential case. Returns true when it ran to the end.
fn differential(reqs: &[RReq], kind: usize, stats: &mut Stats, out: &mut Vec<Violation>) -> bool {
    let (map, infos) = synth_table(kind);
    let table = StaticTypeResolver::from(map);
    let h = pseudo_history(reqs, kind);
    let mut a: SynthBuilder = NativeRecordDefinitionBuilder::new(&table);
    let mut r: RefBuilder = NativeRecordDefinitionBuilder::new(HostTypeResolver);
    let mut issued_a: Vec<DatumId> = Vec::new();
    let mut issued_r: Vec<DatumId> = Vec::new();
    let mut n = 0usize;
    for req in reqs {
        match req {
            RReq::Add { ty, entry } => {
                let name = format!("x{}", n);
                n += 1;
                let table_info = infos[*ty].clone();
                let (res, expected, exp_uninit) = match entry {
                    Entry::Typed => (
                        catch_unwind(AssertUnwindSafe(|| with_type!(*ty, add_typed, &mut a, &name))),
                        table_info,
                        false,
                    ),
                    Entry::TypedUninit => (
                        catch_unwind(AssertUnwindSafe(|| with_copy_type!(*ty, add_typed_uninit, &mut a, &name))),
                        table_info,
                        true,
                    ),
                    Entry::Dynamic { spelling } => {
                        let s = match spelling {
                            0 => table_info.name.clone(),
                            1 => with_type!(*ty, std_name,),
                            _ => table_info.name.replace(' ', ""),
                        };
                        (
                            catch_unwind(AssertUnwindSafe(|| a.add_dynamic_datum(name.as_str(), s.as_str()))),
                            table_info,
                            COPY[*ty],
                        )
                    }
                    Entry::Override { name: ovn, size, align, uninit } => {
                        let mut e = table_info;
                        let tn = if *ovn { Some(format!("Renamed{}", ty)) } else { None };
                        if let Some(tn) = &tn {
                            e.name = tn.clone();
                        }
                        if let Some(s) = size {
                            e.size = *s;
                        }
                        if let Some(al) = align {
                            e.align = *al;
                        }
                        let ov = DatumDefinitionOverride {
                            type_name: tn,
                            size: *size,
                            align: *align,
                            allow_uninit: *uninit,
                        };
                        (
                            catch_unwind(AssertUnwindSafe(|| with_type!(*ty, add_override, &mut a, &name, ov))),
                            e,
                            uninit.unwrap_or(false),
                        )
                    }
                    Entry::Copy { donor_uninit } => {
                        let use_uninit = *donor_uninit && COPY[*ty];
                        // the donor datum lives in a builder of its own, resolved by the same table
                        let res = catch_unwind(AssertUnwindSafe(|| {
                            let mut tmp: SynthBuilder = NativeRecordDefinitionBuilder::new(&table);
                            let ov = DatumDefinitionOverride { type_name: None, size: None, align: None, allow_uninit: Some(use_uninit) };
                            let tid = with_type!(*ty, add_override, &mut tmp, &name, ov)?;
                            a.copy_datum(&tmp[tid])
                        }));
                        (res, table_info, use_uninit)
                    }
                };
                let id = match res {
                    Ok(Ok(id)) => id,
                    Ok(Err(e)) => {
                        out.push(Violation::new("C18", "entry-point-refused", format!("{:?}: {}", req, e), &h));
                        return false;
                    }
                    Err(p) => {
                        out.push(Violation::new("C18", "entry-point-panicked", format!("{:?}: {}", req, panic_text(p)), &h));
                        return false;
                    }
                };
                issued_a.push(id);
                // what was attached must be exactly the resolver's answer (plus the overrides)
                let got = a[id].details();
                stats.data_checked += 1;
                if got.type_info() != &expected || got.allow_uninit() != exp_uninit {
                    out.push(Violation::new(
                        "C18",
                        "attached-type-information-differs-from-the-resolver",
                        format!(
                            "{:?}: attached {:?} uninit {}, the resolver (and overrides) say {:?} uninit {}; the host says {:?}",
                            req,
                            got.type_info(),
                            got.allow_uninit(),
                            expected,
                            exp_uninit,
                            with_type!(*ty, host_info,)
                        ),
                        &h,
                    ));
                }
                // reference: the same numbers given explicitly, no resolver involved
                let rid = r
                    .add_datum_override::<(), _>(
                        name.as_str(),
                        DatumDefinitionOverride {
                            type_name: Some(expected.name.clone()),
                            size: Some(expected.size),
                            align: Some(expected.align),
                            allow_uninit: Some(exp_uninit),
                        },
                    )
                    .unwrap();
                issued_r.push(rid);
            }
            RReq::Remove { k } => {
                let _ = a.remove_datum(issued_a[*k]);
                let _ = r.remove_datum(issued_r[*k]);
            }
            RReq::Close { strat } => {
                if catch_unwind(AssertUnwindSafe(|| close(&mut a, *strat))).is_err() {
                    out.push(Violation::new("C18", "close-panicked", format!("{:?}", req), &h));
                    return false;
                }
                close(&mut r, *strat);
                stats.closes_observed += 1;
            }
        }
    }
    let (da, dr) = (a.build(), r.build());
    let (fa, fr) = (facts(&da), facts(&dr));
    stats.definitions_built += 2;
    if fa != fr {
        let diff: Vec<String> = fa
            .iter()
            .zip(fr.iter())
            .filter(|(x, y)| x != y)
            .map(|(x, y)| format!("{:?} vs {:?}", x, y))
            .collect();
        out.push(Violation::new(
            "C18",
            "layout-differs-from-the-resolver-only-reference",
            format!("typed/dynamic/override/copy under the table vs explicit numbers: {}", diff.join(" | ")),
            &h,
        ));
    }
    let variants_a: Vec<String> = da.variants().map(|v| v.to_string()).collect();
    let variants_r: Vec<String> = dr.variants().map(|v| v.to_string()).collect();
    if variants_a != variants_r {
        out.push(Violation::new("C18", "variant-lists-differ", format!("{:?} vs {:?}", variants_a, variants_r), &h));
    }
    // the layout is sound with the resolver's numbers
    let mut v = Vec::new();
    {
        let mut run = LayoutRun { stats, violations: &mut v, generate_every: 0 };
        let mut flags = HistFlags::default();
        check_definition(&da, &h, &HashMap::new(), &mut run, &mut flags);
    }
    for mut x in v {
        x.kind = format!("layout-under-synthetic-resolver:{}:{}", x.property, x.kind);
        x.property = "C18".to_owned();
        out.push(x);
    }
    true
}

// ---- table faithfulness ---------------------------------------------------------------------

struct FamilyCtx<'a> {
    table: &'a StaticTypeResolver,
    round_trip: &'a StaticTypeResolver,
    uninit: bool,
    count: usize,
    problems: Vec<String>,
}

/// The generic part is kept minimal (hundreds of instantiations): it only collects what depends
/// on `T`; the comparisons are made by [`check_member_facts`].
fn check_member<T>(ctx: &mut FamilyCtx) {
    let host = HostTypeResolver.type_info::<T>();
    let table = ctx.table;
    let round_trip = ctx.round_trip;
    let typed = [
        catch_unwind(AssertUnwindSafe(|| table.type_info::<T>())).ok(),
        catch_unwind(AssertUnwindSafe(|| round_trip.type_info::<T>())).ok(),
    ];
    check_member_facts(
        ctx,
        host,
        std::mem::size_of::<T>(),
        std::mem::align_of::<T>(),
        std::any::type_name::<T>(),
        typed,
    );
}

fn check_member_facts(
    ctx: &mut FamilyCtx,
    host: TypeInfo,
    size: usize,
    align: usize,
    full_name: &str,
    typed: [Option<TypeInfo>; 2],
) {
    ctx.count += 1;
    let real = TypeInfo {
        name: host.name.clone(),
        size,
        align,
    };
    if host != real {
        ctx.problems.push(format!("HostTypeResolver answers {:?} for a type whose real facts are {:?}", host, real));
    }
    let tables = [("table", ctx.table), ("json round trip", ctx.round_trip)];
    for (i, (which, t)) in tables.iter().enumerate() {
        match &typed[i] {
            Some(info) if *info == real => {}
            Some(info) => ctx.problems.push(format!("{}: type_info::<{}>() = {:?}, registered {:?}", which, real.name, info, real)),
            None => ctx.problems.push(format!("{}: type_info::<{}>() panicked for a registered type", which, real.name)),
        }
        for spelling in [real.name.clone(), full_name.to_owned(), real.name.replace(' ', ""), real.name.replace(' ', "  ")] {
            match catch_unwind(AssertUnwindSafe(|| t.dynamic_type_info(&spelling))) {
                Ok(d) if d.info == real && d.allow_uninit == ctx.uninit => {}
                Ok(d) => ctx.problems.push(format!("{}: dynamic_type_info({:?}) = {:?}/{}, registered {:?}/{}", which, spelling, d.info, d.allow_uninit, real, ctx.uninit)),
                Err(_) => ctx.problems.push(format!("{}: dynamic_type_info({:?}) panicked for a registered type", which, spelling)),
            }
        }
    }
}

macro_rules! family {
    ($ctx:expr, $t:ty) => {
        check_member::<$t>($ctx);
        check_member::<Option<$t>>($ctx);
        family!(@arrays $ctx, $t, 1, 2, 3, 4, 5, 6, 7, 8, 9, 10);
    };
    (@arrays $ctx:expr, $t:ty, $($n:expr),*) => {
        $(
            check_member::<[$t; $n]>($ctx);
            check_member::<Option<[$t; $n]>>($ctx);
        )*
    };
}

fn table_checks(stats: &mut Stats, out: &mut Vec<Violation>) -> usize {
    let h = History { reqs: Vec::new(), unique_names: true, origin: "standard type table".to_owned() };
    let mut table = StaticTypeResolver::new();
    table.add_std_types();
    let json = table.to_json_string().unwrap();
    let parsed: BTreeMap<String, DynamicTypeInfo> = serde_json::from_str(&json).unwrap();
    let entries = parsed.len();
    // the three serialised forms agree
    let v1 = table.to_json_value().unwrap();
    let v2: serde_json::Value = serde_json::from_str(&json).unwrap();
    let v3: serde_json::Value = serde_json::from_str(&table.to_json_string_pretty().unwrap()).unwrap();
    if v1 != v2 || v1 != v3 {
        out.push(Violation::new("C18", "json-forms-disagree", "to_json_value / to_json_string / to_json_string_pretty".to_owned(), &h));
    }
    let round_trip = StaticTypeResolver::from(parsed.clone());
    let mut problems = Vec::new();
    let mut count = 0;
    for (uninit, pass) in [(true, 0), (false, 1)] {
        let mut ctx = FamilyCtx { table: &table, round_trip: &round_trip, uninit, count: 0, problems: Vec::new() };
        if pass == 0 {
            family!(&mut ctx, u8);
            family!(&mut ctx, u16);
            family!(&mut ctx, u32);
            family!(&mut ctx, u64);
            family!(&mut ctx, u128);
            family!(&mut ctx, usize);
            family!(&mut ctx, i8);
            family!(&mut ctx, i16);
            family!(&mut ctx, i32);
            family!(&mut ctx, i64);
            family!(&mut ctx, i128);
            family!(&mut ctx, isize);
            family!(&mut ctx, f32);
            family!(&mut ctx, f64);
            family!(&mut ctx, char);
            family!(&mut ctx, bool);
        } else {
            family!(&mut ctx, String);
            family!(&mut ctx, Box<str>);
            family!(&mut ctx, Vec<()>);
        }
        count += ctx.count;
        problems.extend(ctx.problems);
    }
    stats.data_checked += count as u64;
    // entries beyond the enumerated families (a richer standard table) only get the checks that
    // need no Rust type: own-name lookup and the JSON round trip, below
    stats.by_origin.insert("standard table entries".to_owned(), entries as u64);
    stats.by_origin.insert("standard table entries compared with the host by type".to_owned(), count as u64);
    // the table of everything the library knows (`add_all_types`: the standard table plus what
    // cargo features add) holds every standard entry unchanged, and answers for each of its
    // entries under that entry's own name, before and after the JSON round trip
    {
        let mut all = StaticTypeResolver::new();
        all.add_all_types();
        let all_map: BTreeMap<String, DynamicTypeInfo> = serde_json::from_str(&all.to_json_string().unwrap()).unwrap();
        for (k, d) in &parsed {
            match all_map.get(k) {
                Some(x) if x.info == d.info && x.allow_uninit == d.allow_uninit => {}
                other => problems.push(format!("standard entry {:?} is {:?} in the standard table and {:?} in the table of all types", k, d, other)),
            }
        }
        let all_rt = StaticTypeResolver::from(all_map.clone());
        for (k, d) in &all_map {
            for t in [&all, &all_rt] {
                match catch_unwind(AssertUnwindSafe(|| t.dynamic_type_info(k))) {
                    Ok(x) if x.info == d.info && x.allow_uninit == d.allow_uninit && x.info.name == *k => {}
                    other => problems.push(format!("table of all types, key {:?}: registered {:?}, answered {:?}", k, d, other.ok())),
                }
            }
        }
        stats.by_origin.insert("entries of the table of all types".to_owned(), all_map.len() as u64);
    }
    // every key of the table answers identically after the round trip
    for (k, d) in &parsed {
        let a = catch_unwind(AssertUnwindSafe(|| round_trip.dynamic_type_info(k)));
        match a {
            Ok(x) if x.info == d.info && x.allow_uninit == d.allow_uninit && x.info.name == *k => {}
            other => problems.push(format!("key {:?}: registered {:?}, round trip answers {:?}", k, d, other.ok())),
        }
    }
    // an unregistered type must not be answered (least of all with the host's numbers)
    let (map, _) = synth_table(0);
    let foreign = StaticTypeResolver::from(map);
    type Unregistered = (usize, usize, u8);
    match catch_unwind(AssertUnwindSafe(|| foreign.type_info::<Unregistered>())) {
        Err(_) => {}
        Ok(info) => problems.push(format!("a table without (usize, usize, u8) answered {:?} for it", info)),
    }
    match catch_unwind(AssertUnwindSafe(|| foreign.dynamic_type_info("(usize , usize , u8)"))) {
        Err(_) => {}
        Ok(info) => problems.push(format!("a table without (usize, usize, u8) answered {:?} for its name", info)),
    }
    // the same for a spread of types none of the synthetic tables holds: plain numbers, long and
    // short arrays of them, standard containers (whatever the host knows about them)
    macro_rules! must_not_answer {
        ($($t:ty),* $(,)?) => {$(
            for kind in 0..3 {
                let (map, _) = synth_table(kind);
                let t = StaticTypeResolver::from(map);
                if let Ok(info) = catch_unwind(AssertUnwindSafe(|| t.type_info::<$t>())) {
                    problems.push(format!("synthetic table {} does not hold {} but answered {:?} for it", kind, stringify!($t), info));
                }
                let name = HostTypeResolver.type_info::<$t>().name;
                if let Ok(info) = catch_unwind(AssertUnwindSafe(|| t.dynamic_type_info(&name))) {
                    problems.push(format!("synthetic table {} does not hold {} but answered {:?} for its name", kind, stringify!($t), info));
                }
                count += 1;
            }
        )*};
    }
    must_not_answer!(i8, i16, i32, i128, isize, f32, [u64; 12], [u8; 11], [u32; 17], [f64; 33], [bool; 64], [u16; 2], [char; 4], Option<u8>, Vec<u64>, Box<u32>, (u8, u8), [i64; 3]);
    // custom registrations
    {
        let mut t = StaticTypeResolver::new();
        t.add_type::<vtypes::Plain>();
        t.add_type_allow_uninit::<vtypes::A32>();
        t.add_type::<Vec<vtypes::nested::Gen<u8>>>();
        let mut ctx = FamilyCtx { table: &t, round_trip: &t, uninit: false, count: 0, problems: Vec::new() };
        check_member::<vtypes::Plain>(&mut ctx);
        check_member::<Vec<vtypes::nested::Gen<u8>>>(&mut ctx);
        ctx.uninit = true;
        check_member::<vtypes::A32>(&mut ctx);
        problems.extend(ctx.problems);
        count += ctx.count;
    }
    // user types that are named like the standard ones, registered next to the standard table:
    // each must be answered for itself (its own size and alignment), the standard types must
    // keep their answers, and a table that lacks them must not answer for them
    {
        let attempt = catch_unwind(AssertUnwindSafe(|| {
            let mut t = StaticTypeResolver::new();
            t.add_std_types();
            t.add_type_allow_uninit::<vtypes::string::String>();
            t.add_type::<vtypes::option::Option<u8>>();
            t.add_type::<vtypes::vec::Vec<u16>>();
            t.add_type::<vtypes::boxed::Box<bool>>();
            t.add_type::<vtypes::result::Result<u8, String>>();
            t
        }));
        match attempt {
            Err(p) => problems.push(format!("user types named like standard ones cannot be registered next to the standard table: {}", panic_text(p))),
            Ok(t) => {
                let rt: BTreeMap<String, DynamicTypeInfo> = serde_json::from_str(&t.to_json_string().unwrap()).unwrap();
                let rt = StaticTypeResolver::from(rt);
                let mut ctx = FamilyCtx { table: &t, round_trip: &rt, uninit: true, count: 0, problems: Vec::new() };
                check_member::<vtypes::string::String>(&mut ctx);
                ctx.uninit = false;
                check_member::<vtypes::option::Option<u8>>(&mut ctx);
                check_member::<vtypes::vec::Vec<u16>>(&mut ctx);
                check_member::<vtypes::boxed::Box<bool>>(&mut ctx);
                check_member::<vtypes::result::Result<u8, String>>(&mut ctx);
                check_member::<String>(&mut ctx);
                check_member::<Box<str>>(&mut ctx);
                problems.extend(ctx.problems);
                count += ctx.count;
            }
        }
        if catch_unwind(AssertUnwindSafe(|| table.type_info::<vtypes::string::String>())).is_ok() {
            problems.push("the standard table answers for the user type vtypes::string::String, which it does not hold".to_owned());
        }
        if catch_unwind(AssertUnwindSafe(|| table.type_info::<vtypes::vec::Vec<u16>>())).is_ok() {
            problems.push("the standard table answers for the user type vtypes::vec::Vec<u16>, which it does not hold".to_owned());
        }
        let mut only_user = StaticTypeResolver::new();
        only_user.add_type::<vtypes::string::String>();
        if let Ok(info) = catch_unwind(AssertUnwindSafe(|| only_user.type_info::<String>())) {
            problems.push(format!("a table that only holds vtypes::string::String answers {:?} for the standard String", info));
        }
    }
    for p in problems {
        out.push(Violation::new("C18", "type-table-not-faithful", p, &h));
    }
    count
}

pub fn mode(args: &Args) {
    let seed = args.u64("seed", 1);
    let count = args.u64("count", 2_000);
    let shard = args.u64("shard", 0);
    let mut stats = Stats::default();
    let mut violations = Vec::new();
    let mut total = 0u64;
    let mut distinct = Distinct::new();
    let mut samples = Vec::new();
    let mut evaluations = 0u64;
    let mut extra = BTreeMap::new();
    if shard == 0 {
        let mut v = Vec::new();
        let members = table_checks(&mut stats, &mut v);
        keep_violations(&mut violations, &mut total, v);
        extra.insert("standard_table_members_checked".to_owned(), serde_json::json!(members));
        evaluations += members as u64;
    }
    let mut rng = Rng::stream(seed, 0x5000 + shard);
    for i in 0..count {
        let reqs = gen(&mut rng);
        let kind = (i % 3) as usize;
        evaluations += 1;
        stats.histories += 1;
        let mut v = Vec::new();
        let ok = differential(&reqs, kind, &mut stats, &mut v);
        keep_violations(&mut violations, &mut total, v);
        let d = vtypes::fnv64(format!("{} {}", kind, text(&reqs)).as_bytes());
        let entry_kinds: std::collections::BTreeSet<u8> = reqs
            .iter()
            .filter_map(|r| match r {
                RReq::Add { entry, .. } => Some(match entry {
                    Entry::Typed => 0,
                    Entry::TypedUninit => 1,
                    Entry::Dynamic { .. } => 2,
                    Entry::Override { .. } => 3,
                    Entry::Copy { .. } => 4,
                }),
                _ => None,
            })
            .collect();
        if ok && entry_kinds.len() >= 2 {
            distinct.add("C18", d);
            if samples.len() < 3 && d % 101 == 0 {
                samples.push(format!("table {}: {}", kind, text(&reqs)));
            }
        }
    }
    distinct.dump(args);
    let report = Report {
        mode: "resolver".to_owned(),
        seed,
        shard,
        evaluations,
        distinct_nontrivial: distinct.counts(),
        exhaustive_sweep: None,
        stats,
        extra,
        samples,
        violations,
        violations_total: total,
    };
    crate::write_report(args, &report);
}
