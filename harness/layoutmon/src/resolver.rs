//! C18 (filled in later).
use crate::Args;
pub fn mode(_args: &Args) {
    unimplemented!()
}
