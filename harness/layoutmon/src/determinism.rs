//! C19: the same history always gives the same offsets, text and generated code.

use std::collections::BTreeMap;

use truc::generator::generate;
use vtypes::Rng;

use crate::hist::{self, History};
use crate::monitors::{config_for, Stats, Violation, FRAGSETS};
use crate::sut::{build_native, build_native_named, id_of};
use crate::{keep_violations, Args, Distinct, Report};

/// Everything observable about the definition a history builds, as one string per facet.
pub fn facets(h: &History) -> Result<Vec<(String, String)>, String> {
    let def = build_native(h)?;
    let mut out = Vec::new();
    let mut offsets = String::new();
    for d in def.datum_definitions() {
        offsets.push_str(&format!(
            "{}:{}@{} ",
            id_of(d.id()),
            d.name(),
            d.details().offset() as i64
        ));
    }
    for v in def.variants() {
        offsets.push_str(&format!("| {} ", v));
    }
    out.push(("offsets".to_owned(), offsets));
    out.push(("display".to_owned(), def.to_string()));
    out.push((
        "capacity".to_owned(),
        format!("{} {}", def.max_size(), def.max_type_align()),
    ));
    for fragset in 0..4 {
        out.push((
            format!("generate[{}]", FRAGSETS[fragset]),
            generate(&def, &config_for(fragset)),
        ));
    }
    coarse_facets(h, &mut out);
    Ok(out)
}

/// The same history with coarser type names (one name recorded with several sizes and
/// alignments): generated text only.
fn coarse_facets(h: &History, out: &mut Vec<(String, String)>) {
    let naming = 1 + (h.digest() % 3) as usize;
    if let Ok(def) = build_native_named(h, naming) {
        for fragset in [0usize, 3] {
            out.push((
                format!("generate[{}, type naming {}]", FRAGSETS[fragset], naming),
                generate(&def, &config_for(fragset)),
            ));
        }
    }
}

/// The same history through the typed entry points of a builder resolved by a type table.
fn table_facet(h: &History) -> Option<String> {
    let kind = (h.digest() % 3) as usize;
    std::panic::catch_unwind(|| crate::resolver::typed_replay(h, kind)).ok().and_then(|r| r.ok())
}

pub fn digest_of(facets: &[(String, String)]) -> u64 {
    let mut h = 0xcbf2_9ce4_8422_2325u64;
    for (k, v) in facets {
        h ^= vtypes::fnv64(k.as_bytes()).rotate_left(7);
        h = h.wrapping_mul(0x0000_0100_0000_01b3);
        h ^= vtypes::fnv64(v.as_bytes());
        h = h.wrapping_mul(0x0000_0100_0000_01b3);
    }
    h
}

/// Two replays in one process, with allocator noise in between.
pub fn check_one(h: &History, out: &mut Vec<Violation>) -> Option<u64> {
    let a = match std::panic::catch_unwind(|| facets(h)) {
        Ok(Ok(a)) => a,
        // panics and rejections are C13 / C12 matters, reported by their own monitors
        _ => return None,
    };
    // disturb the allocator and the per-process hash seeds' consumers
    let mut junk: Vec<Vec<u8>> = Vec::new();
    let n = (h.digest() % 7) as usize + 1;
    for i in 0..n {
        junk.push(vec![0u8; 17 * (i + 1) + (h.digest() % 257) as usize]);
    }
    let _noise: std::collections::HashMap<u64, u64> = (0..n as u64).map(|i| (i, i)).collect();
    let b = match std::panic::catch_unwind(|| facets(h)) {
        Ok(Ok(b)) => b,
        _ => return None,
    };
    drop(junk);
    let mut a = a;
    let mut b = b;
    // through a type table: here (after tables with other answers were used in this thread),
    // and in a thread of its own that has never resolved anything
    {
        let other = History { reqs: h.reqs.clone(), unique_names: h.unique_names, origin: String::new() };
        for k in 1..3 {
            let kind = ((h.digest() % 3) as usize + k) % 3;
            let _ = std::panic::catch_unwind(|| crate::resolver::typed_replay(&other, kind));
        }
        let here = table_facet(h);
        let hh = h.clone();
        let fresh = std::thread::spawn(move || table_facet(&hh)).join().ok().flatten();
        if let (Some(x), Some(y)) = (here, fresh) {
            a.push(("through a type table".to_owned(), x));
            b.push(("through a type table".to_owned(), y));
        }
    }
    for ((ka, va), (_, vb)) in a.iter().zip(b.iter()) {
        if va != vb {
            let pos = va
                .bytes()
                .zip(vb.bytes())
                .position(|(x, y)| x != y)
                .unwrap_or(va.len().min(vb.len()));
            let lo = pos.saturating_sub(60);
            out.push(Violation::new(
                "C19",
                "replay-differs-in-process",
                format!(
                    "facet {} differs at byte {}: first replay ...{:?}... second replay ...{:?}...",
                    ka,
                    pos,
                    &va[lo..(pos + 60).min(va.len())],
                    &vb[lo..(pos + 60).min(vb.len())]
                ),
                h,
            ));
        }
    }
    Some(digest_of(&a))
}

pub fn mode(args: &Args) {
    let seed = args.u64("seed", 1);
    let count = args.u64("count", 2_000);
    let shard = args.u64("shard", 0);
    let perturb = args.u64("perturb", 0);
    // a perturbed process starts from a different heap and environment
    let mut _ballast: Vec<Vec<u8>> = Vec::new();
    if perturb != 0 {
        for i in 0..(perturb * 13) {
            _ballast.push(vec![1u8; 1000 + (i as usize * 37) % 4000]);
        }
        std::env::set_var("VERIF_PERTURBATION", format!("{}", perturb));
    }
    let mut violations = Vec::new();
    let mut total = 0u64;
    let mut distinct = Distinct::new();
    let mut samples = Vec::new();
    let mut digests: Vec<String> = Vec::new();
    let mut evaluations = 0u64;
    let mut stats = Stats::default();
    let mut histories: Vec<History> = Vec::new();
    if shard == 0 {
        histories.extend(hist::directed_histories());
    }
    let mut rng = Rng::stream(seed, 0x3000 + shard);
    for i in 0..count {
        histories.push(if i % 5 == 4 {
            crate::hostile_valid(&mut rng)
        } else {
            hist::gen_layout_history(&mut rng)
        });
    }
    // a perturbed process goes through the histories in the opposite order: what a history
    // gives must not depend on what the process did before (digests are reported in list order)
    let order: Vec<usize> = if perturb != 0 { (0..histories.len()).rev().collect() } else { (0..histories.len()).collect() };
    let mut slots: Vec<Option<String>> = vec![None; histories.len()];
    for &hi in &order {
        let h = &histories[hi];
        evaluations += 1;
        stats.histories += 1;
        let mut v = Vec::new();
        let d = check_one(h, &mut v);
        keep_violations(&mut violations, &mut total, v);
        match d {
            Some(d) => {
                stats.generate_calls += 8;
                slots[hi] = Some(format!("{:016x} {:016x}", h.digest(), d));
                if h.closes() >= 2 {
                    distinct.add("C19", h.digest());
                    if samples.len() < 4 && (h.digest() % 53 == 0 || samples.is_empty()) {
                        samples.push(h.text());
                    }
                }
            }
            None => slots[hi] = Some(format!("{:016x} unbuilt", h.digest())),
        }
    }
    digests.extend(slots.into_iter().flatten());
    let mut extra = BTreeMap::new();
    extra.insert("digests".to_owned(), serde_json::json!(digests));
    extra.insert("perturb".to_owned(), serde_json::json!(perturb));
    distinct.dump(args);
    let report = Report {
        mode: "determinism".to_owned(),
        seed,
        shard,
        evaluations,
        distinct_nontrivial: distinct.counts(),
        exhaustive_sweep: None,
        stats,
        extra,
        samples,
        violations,
        violations_total: total,
    };
    crate::write_report(args, &report);
}
