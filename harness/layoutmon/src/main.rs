//! Engine A: builder / layout / definition monitors over seeded, directed and small-scope
//! histories, applied to the real `truc` builders and strategies.

mod determinism;
mod emit;
mod hist;
mod monitors;
mod replaydef;
mod resolver;
mod sut;
mod typenames;

use std::collections::{BTreeMap, HashSet};

use serde::Serialize;
use vtypes::Rng;

use hist::{History, ALPHA_REALISTIC};
use monitors::{LayoutRun, Stats, Violation};

pub struct Args {
    map: BTreeMap<String, String>,
    pub mode: String,
}

impl Args {
    fn parse() -> Args {
        let mut it = std::env::args().skip(1);
        let mode = it.next().unwrap_or_else(|| {
            eprintln!("usage: layoutmon <mode> [--key value]...");
            std::process::exit(2);
        });
        let mut map = BTreeMap::new();
        while let Some(k) = it.next() {
            let k = k.trim_start_matches("--").to_owned();
            let v = it.next().unwrap_or_default();
            map.insert(k, v);
        }
        Args { map, mode }
    }
    pub fn u64(&self, k: &str, default: u64) -> u64 {
        self.map.get(k).map(|v| v.parse().expect(k)).unwrap_or(default)
    }
    pub fn str(&self, k: &str, default: &str) -> String {
        self.map.get(k).cloned().unwrap_or_else(|| default.to_owned())
    }
    pub fn has(&self, k: &str) -> bool {
        self.map.contains_key(k)
    }
}

#[derive(Serialize, Default)]
pub struct Report {
    pub mode: String,
    pub seed: u64,
    pub shard: u64,
    pub evaluations: u64,
    /// digests of the distinct non-trivial cases, per property
    pub distinct_nontrivial: BTreeMap<String, u64>,
    pub exhaustive_sweep: Option<SweepInfo>,
    pub stats: Stats,
    pub extra: BTreeMap<String, serde_json::Value>,
    pub samples: Vec<String>,
    pub violations: Vec<Violation>,
    pub violations_total: u64,
}

#[derive(Serialize, Default, Clone)]
pub struct SweepInfo {
    pub alphabet: Vec<String>,
    pub max_variants: u64,
    pub max_adds: u64,
    pub enumerated: u64,
}

const MAX_VIOLATIONS_KEPT: usize = 40;

pub fn write_report(args: &Args, report: &Report) {
    let text = serde_json::to_string(report).unwrap();
    let out = args.str("out", "");
    if out.is_empty() {
        println!("{}", text);
    } else {
        std::fs::write(&out, text).expect("write report");
    }
}

pub struct Distinct {
    sets: BTreeMap<&'static str, HashSet<u64>>,
}

impl Distinct {
    pub fn new() -> Self {
        Distinct {
            sets: BTreeMap::new(),
        }
    }
    pub fn add(&mut self, prop: &'static str, digest: u64) {
        self.sets.entry(prop).or_default().insert(digest);
    }
    /// Writes the digests of every property to `<out>.digests.<prop>` (raw little-endian u64)
    /// so that the runner can count distinct cases across shards.
    pub fn dump(&self, args: &Args) {
        let out = args.str("out", "");
        if out.is_empty() {
            return;
        }
        for (prop, set) in &self.sets {
            let mut bytes = Vec::with_capacity(set.len() * 8);
            for d in set {
                bytes.extend_from_slice(&d.to_le_bytes());
            }
            std::fs::write(format!("{}.digests.{}", out, prop), bytes).expect("write digests");
        }
    }

    pub fn counts(&self) -> BTreeMap<String, u64> {
        self.sets
            .iter()
            .map(|(k, v)| (k.to_string(), v.len() as u64))
            .collect()
    }
}

pub fn keep_violations(violations: &mut Vec<Violation>, total: &mut u64, new: Vec<Violation>) {
    *total += new.len() as u64;
    for v in new {
        // bounded per property and kind, so that a flood of one kind cannot hide another
        let same = violations.iter().filter(|w| w.property == v.property && w.kind == v.kind).count();
        let of_property = violations.iter().filter(|w| w.property == v.property).count();
        if same < 3 && of_property < MAX_VIOLATIONS_KEPT {
            violations.push(v);
        }
    }
}

/// A hostile history reduced to the requests the model accepts, closed at the end: a valid
/// history that re-uses names across variants (including replacing a name within one
/// transition) and contains cancelled data.
pub fn hostile_valid(rng: &mut Rng) -> History {
    use hist::{Model, Outcome, Req};
    let h = hist::gen_hostile_history(rng);
    let mut model = Model::default();
    let mut issued: Vec<usize> = Vec::new();
    let mut kmap: BTreeMap<usize, usize> = BTreeMap::new(); // old k -> new k
    let mut old_k = 0usize;
    let mut reqs = Vec::new();
    let mut last_strat = hist::Strat::Simple;
    for r in &h.reqs {
        match r {
            Req::Add { name, .. } => {
                let o = model.add(&format!("n{}", name));
                if let Outcome::Added(id) = o {
                    kmap.insert(old_k, issued.len());
                    issued.push(id);
                    old_k += 1;
                    reqs.push(r.clone());
                }
            }
            Req::Remove { k } => {
                if let Some(nk) = kmap.get(k) {
                    if model.remove(issued[*nk]) == Outcome::Removed {
                        reqs.push(Req::Remove { k: *nk });
                    }
                }
            }
            Req::RemoveRaw { .. } => {}
            Req::Close { strat } => {
                last_strat = *strat;
                if let Outcome::Closed { new: true, .. } = model.close() {
                    reqs.push(r.clone());
                }
            }
        }
    }
    if model.pending() || model.variants.is_empty() {
        model.close();
        reqs.push(Req::Close { strat: last_strat });
    }
    History {
        reqs,
        unique_names: false,
        origin: "random-hostile-valid".to_owned(),
    }
}

fn mode_layout(args: &Args) {
    let seed = args.u64("seed", 1);
    let count = args.u64("count", 10_000);
    let shard = args.u64("shard", 0);
    let nshards = args.u64("nshards", 1);
    let generate_every = args.u64("generate-every", 0);
    let sweep = args.u64("sweep", 0); // 0 none, else max_variants
    let sweep_adds = args.u64("sweep-adds", 2);
    let mut stats = Stats::default();
    let mut violations = Vec::new();
    let mut total = 0u64;
    let mut distinct = Distinct::new();
    let mut samples: Vec<String> = Vec::new();
    let mut evaluations = 0u64;

    let mut one = |h: &History,
                   stats: &mut Stats,
                   distinct: &mut Distinct,
                   samples: &mut Vec<String>,
                   gen_every: u64| {
        let mut v = Vec::new();
        let flags = {
            let mut run = LayoutRun {
                stats,
                violations: &mut v,
                generate_every: gen_every,
            };
            // the monitors only call public accessors with identifiers the builder handed out
            match std::panic::catch_unwind(std::panic::AssertUnwindSafe(|| monitors::run_layout(h, &mut run))) {
                Ok(f) => f,
                Err(p) => {
                    run.violations.push(Violation::new(
                        "C13",
                        "accessor-panicked",
                        format!("a public accessor panicked on data the builder had issued: {}", sut::panic_text(p)),
                        h,
                    ));
                    monitors::HistFlags::default()
                }
            }
        };
        let d = h.digest();
        if flags.variants >= 2 && flags.gap_filled {
            distinct.add("C01", d);
            if samples.len() < 6 && (d % 97 == 0 || samples.len() < 2) {
                samples.push(h.text());
            }
        }
        if flags.variants >= 2 && flags.multi_datum_close {
            distinct.add("C02", d);
        }
        if flags.variants >= 2 && flags.carried_over {
            distinct.add("C03", d);
        }
        if flags.built && (flags.has_orphan || flags.has_zst || flags.variants >= 3 || flags.generated) {
            distinct.add("C13", d);
        }
        v
    };

    if shard == 0 {
        for h in hist::directed_histories() {
            evaluations += 1;
            let v = one(&h, &mut stats, &mut distinct, &mut samples, if generate_every != 0 { 1 } else { 0 });
            keep_violations(&mut violations, &mut total, v);
        }
    }
    let mut rng = Rng::stream(seed, 0x1000 + shard);
    for i in 0..count {
        let h = if i % 5 == 4 {
            hostile_valid(&mut rng)
        } else {
            hist::gen_layout_history(&mut rng)
        };
        evaluations += 1;
        let v = one(&h, &mut stats, &mut distinct, &mut samples, generate_every);
        keep_violations(&mut violations, &mut total, v);
    }
    let mut sweep_info = None;
    if sweep > 0 {
        // zero-size, odd sizes, several alignments
        let alphabet7 = [
            hist::sh(0, 8),
            hist::sh(1, 1),
            hist::sh(3, 1),
            hist::sh(2, 2),
            hist::sh(6, 2),
            hist::sh(4, 4),
            hist::sh(8, 8),
        ];
        let alphabet5 = [
            hist::sh(0, 8),
            hist::sh(1, 1),
            hist::sh(3, 1),
            hist::sh(6, 2),
            hist::sh(8, 8),
        ];
        let alphabet: &[hist::Shape] = if args.u64("sweep-alpha", 7) == 5 {
            &alphabet5
        } else {
            &alphabet7
        };
        let mut f = |h: &History| {
            let v = one(h, &mut stats, &mut distinct, &mut samples, 0);
            keep_violations(&mut violations, &mut total, v);
        };
        let n = hist::sweep(
            alphabet,
            sweep as usize,
            sweep_adds as usize,
            shard as usize,
            nshards as usize,
            &mut f,
        );
        evaluations += n;
        sweep_info = Some(SweepInfo {
            alphabet: alphabet.iter().map(|s| format!("{}/{}", s.size, s.align)).collect(),
            max_variants: sweep,
            max_adds: sweep_adds,
            enumerated: n,
        });
    }
    let _ = ALPHA_REALISTIC;
    distinct.dump(args);
    let report = Report {
        mode: "layout".to_owned(),
        seed,
        shard,
        evaluations,
        distinct_nontrivial: distinct.counts(),
        exhaustive_sweep: sweep_info,
        stats,
        extra: BTreeMap::new(),
        samples,
        violations,
        violations_total: total,
    };
    write_report(args, &report);
}

fn mode_builder(args: &Args) {
    let seed = args.u64("seed", 1);
    let count = args.u64("count", 10_000);
    let shard = args.u64("shard", 0);
    let mut stats = Stats::default();
    let mut violations = Vec::new();
    let mut total = 0u64;
    let mut distinct = Distinct::new();
    let mut samples = Vec::new();
    let mut evaluations = 0;
    let mut run_one = |h: &History, stats: &mut Stats, distinct: &mut Distinct, samples: &mut Vec<String>| {
        let mut v = Vec::new();
        let flags = match std::panic::catch_unwind(std::panic::AssertUnwindSafe(|| monitors::run_builder_both(h, stats, &mut v))) {
            Ok(f) => f,
            Err(p) => {
                v.push(Violation::new(
                    "C12",
                    "accessor-panicked",
                    format!("a public accessor panicked on data the builder had issued: {}", sut::panic_text(p)),
                    h,
                ));
                monitors::BuilderFlags::default()
            }
        };
        if flags.rejected > 0 && flags.variants >= 1 {
            distinct.add("C12", h.digest());
            if samples.len() < 6 && (h.digest() % 89 == 0 || samples.len() < 2) {
                samples.push(h.text());
            }
        }
        v
    };
    if shard == 0 {
        for h in hist::directed_hostile_histories()
            .into_iter()
            .chain(hist::directed_histories())
        {
            evaluations += 1;
            let v = run_one(&h, &mut stats, &mut distinct, &mut samples);
            keep_violations(&mut violations, &mut total, v);
        }
    }
    let mut rng = Rng::stream(seed, 0x2000 + shard);
    for i in 0..count {
        let h = if i % 4 == 3 {
            hist::gen_layout_history(&mut rng)
        } else {
            hist::gen_hostile_history(&mut rng)
        };
        // the full observation after every request is quadratic in the length of the history:
        // the very long layout histories are left to the layout monitors
        if h.closes() > 24 || h.reqs.len() > 160 {
            continue;
        }
        evaluations += 1;
        let v = run_one(&h, &mut stats, &mut distinct, &mut samples);
        keep_violations(&mut violations, &mut total, v);
    }
    distinct.dump(args);
    let report = Report {
        mode: "builder".to_owned(),
        seed,
        shard,
        evaluations,
        distinct_nontrivial: distinct.counts(),
        exhaustive_sweep: None,
        stats,
        extra: BTreeMap::new(),
        samples,
        violations,
        violations_total: total,
    };
    write_report(args, &report);
}

fn mode_replay(args: &Args) {
    // replays the history of a witness file through every monitor
    let path = args.str("file", "");
    let text = std::fs::read_to_string(&path).expect("read replay file");
    let value: serde_json::Value = serde_json::from_str(&text).expect("json");
    let h: History = serde_json::from_value(value["history"].clone()).expect("history");
    let mut stats = Stats::default();
    let mut violations = Vec::new();
    let valid = {
        // valid iff the model accepts everything and ends closed
        use hist::{Model, Outcome, Req};
        let mut m = Model::default();
        let mut issued = Vec::new();
        let mut ok = true;
        for r in &h.reqs {
            let o = match r {
                Req::Add { name, .. } => {
                    let o = m.add(&h.name_of(*name));
                    if let Outcome::Added(id) = o {
                        issued.push(id);
                    }
                    o
                }
                Req::Remove { k } => issued.get(*k).map_or(Outcome::Rejected, |id| m.remove(*id)),
                Req::RemoveRaw { id } => m.remove(*id),
                Req::Close { .. } => m.close(),
            };
            if o == Outcome::Rejected {
                ok = false;
            }
        }
        ok && !m.pending()
    };
    if valid {
        let mut run = LayoutRun {
            stats: &mut stats,
            violations: &mut violations,
            generate_every: 1,
        };
        monitors::run_layout(&h, &mut run);
        determinism::check_one(&h, &mut violations);
        replaydef::check_one(&h, &mut stats, &mut violations);
    }
    monitors::run_builder_both(&h, &mut stats, &mut violations);
    println!("history: {}", h.text());
    for v in &violations {
        println!("VIOLATION property={} kind={} {}", v.property, v.kind, v.detail);
    }
    println!("replayed: {} violation(s)", violations.len());
    std::process::exit(if violations.is_empty() { 0 } else { 1 });
}

fn main() {
    // panics inside the code under test are caught and reported by the monitors
    std::panic::set_hook(Box::new(|_| {}));
    let args = Args::parse();
    match args.mode.as_str() {
        "layout" => mode_layout(&args),
        "builder" => mode_builder(&args),
        "determinism" => determinism::mode(&args),
        "replaydef" => replaydef::mode(&args),
        "resolver" => resolver::mode(&args),
        "emit-probes" => typenames::mode(&args),
        "emit" => emit::mode(&args),
        "replay" => mode_replay(&args),
        "count-distinct" => {
            // union of raw u64 digest files
            let mut all: Vec<u64> = Vec::new();
            for f in args.str("files", "").split(',').filter(|f| !f.is_empty()) {
                if let Ok(bytes) = std::fs::read(f) {
                    for c in bytes.chunks_exact(8) {
                        all.push(u64::from_le_bytes(c.try_into().unwrap()));
                    }
                }
            }
            all.sort_unstable();
            all.dedup();
            println!("{}", all.len());
        }
        other => {
            eprintln!("unknown mode {}", other);
            std::process::exit(2);
        }
    }
}
