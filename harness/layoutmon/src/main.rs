fn main() {}
