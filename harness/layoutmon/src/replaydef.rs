//! C20: replaying a definition into another builder through `convert_record_definition`.

use std::collections::{BTreeMap, BTreeSet, HashMap};
use std::panic::{catch_unwind, AssertUnwindSafe};

use truc::record::definition::{
    builder::{
        generic::{variant as gvariant, GenericRecordDefinitionBuilder},
        native::{variant as nvariant, NativeRecordDefinitionBuilder},
    },
    convert::convert_record_definition,
    DatumDefinition, NativeDatumDetails, RecordDefinition,
};
use truc::record::type_resolver::{HostTypeResolver, TypeInfo};
use vtypes::Rng;

use crate::hist::{self, History, Strat, STRATS};
use crate::monitors::{check_definition, HistFlags, LayoutRun, Stats, Violation};
use crate::sut::{build_native, did, id_of, panic_text, vid_of};
use crate::{keep_violations, Args, Distinct, Report};

#[derive(Clone, Debug)]
enum Ev {
    Add { src: usize, tgt: usize },
    Remove { tgt: usize },
    Close { variant: usize },
}

type Key = (String, String, usize, usize, bool);

fn key_native(d: &DatumDefinition<NativeDatumDetails>) -> Key {
    (
        d.name().to_owned(),
        d.details().type_name().to_owned(),
        d.details().size(),
        d.details().type_align(),
        d.details().allow_uninit(),
    )
}

struct Outcome {
    map: BTreeMap<usize, usize>,
    log: Vec<Ev>,
    /// target variants: list of (target datum id)
    variants: Vec<Vec<usize>>,
    /// target datum id -> key
    keys: HashMap<usize, Key>,
}

fn check_outcome(
    which: &str,
    src: &RecordDefinition<NativeDatumDetails>,
    o: &Outcome,
    h: &History,
    stats: &mut Stats,
    out: &mut Vec<Violation>,
) {
    let viol = |kind: &str, detail: String, out: &mut Vec<Violation>| {
        out.push(Violation::new("C20", kind, format!("target {}: {}", which, detail), h));
    };
    let src_variants: Vec<(usize, Vec<usize>)> = src
        .variants()
        .map(|v| (vid_of(v.id()), v.data().map(id_of).collect()))
        .collect();
    if o.variants.len() != src_variants.len() {
        viol(
            "variant-count",
            format!("{} target variants for {} source variants", o.variants.len(), src_variants.len()),
            out,
        );
    }
    if o.map.len() != src_variants.len() {
        viol(
            "map-size",
            format!("map has {} entries for {} source variants", o.map.len(), src_variants.len()),
            out,
        );
    }
    let images: BTreeSet<usize> = o.map.values().copied().collect();
    if images.len() != o.map.len() {
        viol("map-not-injective", format!("{:?}", o.map), out);
    }
    // datum correspondence from the callback log
    let mut src_to_tgt: HashMap<usize, usize> = HashMap::new();
    for ev in &o.log {
        if let Ev::Add { src, tgt } = ev {
            if src_to_tgt.insert(*src, *tgt).is_some() {
                viol("datum-added-twice", format!("source datum {} added more than once", src), out);
            }
        }
    }
    let tgt_images: BTreeSet<usize> = src_to_tgt.values().copied().collect();
    if tgt_images.len() != src_to_tgt.len() {
        viol("datum-map-not-injective", format!("{:?}", src_to_tgt), out);
    }
    let in_some_variant: BTreeSet<usize> = src_variants.iter().flat_map(|(_, l)| l.iter().copied()).collect();
    for d in &in_some_variant {
        if !src_to_tgt.contains_key(d) {
            viol("datum-never-added", format!("source datum {} was never replayed", d), out);
        }
    }
    for (sv, list) in &src_variants {
        stats.variants_checked += 1;
        let tv = match o.map.get(sv) {
            Some(tv) => *tv,
            None => {
                viol("variant-unmapped", format!("source variant {} has no image", sv), out);
                continue;
            }
        };
        let tlist = match o.variants.get(tv) {
            Some(l) => l,
            None => {
                viol("variant-image-missing", format!("source variant {} -> {} which does not exist", sv, tv), out);
                continue;
            }
        };
        // same names and type information (multisets)
        let mut a: Vec<Key> = list.iter().map(|d| key_native(&src[did(*d)])).collect();
        let mut b: Vec<Key> = tlist.iter().filter_map(|d| o.keys.get(d).cloned()).collect();
        a.sort();
        b.sort();
        stats.data_checked += a.len() as u64;
        if a != b {
            viol(
                "variant-content-differs",
                format!("source variant {} holds {:?}, target variant {} holds {:?}", sv, a, tv, b),
                out,
            );
        }
        // every source datum corresponds to a single target datum across the variants it spans
        let expect: BTreeSet<usize> = list.iter().filter_map(|d| src_to_tgt.get(d).copied()).collect();
        let got: BTreeSet<usize> = tlist.iter().copied().collect();
        if expect != got || got.len() != tlist.len() {
            viol(
                "datum-correspondence",
                format!(
                    "source variant {} {:?} maps to target data {:?} but target variant {} is {:?}",
                    sv, list, expect, tv, tlist
                ),
                out,
            );
        }
    }
}

fn replay_native(
    src: &RecordDefinition<NativeDatumDetails>,
    strat: Strat,
) -> Result<(Outcome, RecordDefinition<NativeDatumDetails>), String> {
    struct Ctx {
        builder: NativeRecordDefinitionBuilder<HostTypeResolver>,
        log: Vec<Ev>,
    }
    let mut ctx = Ctx {
        builder: NativeRecordDefinitionBuilder::new(HostTypeResolver),
        log: Vec::new(),
    };
    let map = convert_record_definition(
        src,
        |ctx: &mut Ctx, d| {
            let id = ctx.builder.copy_datum(d)?;
            ctx.log.push(Ev::Add { src: id_of(d.id()), tgt: id_of(id) });
            Ok(id)
        },
        |ctx: &mut Ctx, id| {
            ctx.log.push(Ev::Remove { tgt: id_of(id) });
            ctx.builder.remove_datum(id)
        },
        |ctx: &mut Ctx| {
            let v = match strat {
                Strat::Simple => ctx.builder.close_record_variant_with(nvariant::simple),
                Strat::Basic => ctx.builder.close_record_variant_with(nvariant::basic),
                Strat::Append => ctx.builder.close_record_variant_with(nvariant::append_data),
                Strat::AppendRev => ctx.builder.close_record_variant_with(nvariant::append_data_reverse),
            };
            ctx.log.push(Ev::Close { variant: vid_of(v) });
            v
        },
        &mut ctx,
    )?;
    let def = ctx.builder.build();
    let outcome = Outcome {
        map: map.iter().map(|(k, v)| (vid_of(*k), vid_of(*v))).collect(),
        log: ctx.log,
        variants: def.variants().map(|v| v.data().map(id_of).collect()).collect(),
        keys: def.datum_definitions().map(|d| (id_of(d.id()), key_native(d))).collect(),
    };
    Ok((outcome, def))
}

fn replay_generic(src: &RecordDefinition<NativeDatumDetails>, reverse: bool) -> Result<Outcome, String> {
    struct Ctx {
        builder: GenericRecordDefinitionBuilder<(TypeInfo, bool)>,
        log: Vec<Ev>,
    }
    let mut ctx = Ctx {
        builder: GenericRecordDefinitionBuilder::new(),
        log: Vec::new(),
    };
    let map = convert_record_definition(
        src,
        |ctx: &mut Ctx, d| {
            let id = ctx.builder.add_datum(
                d.name(),
                (d.details().type_info().clone(), d.details().allow_uninit()),
            )?;
            ctx.log.push(Ev::Add { src: id_of(d.id()), tgt: id_of(id) });
            Ok(id)
        },
        |ctx: &mut Ctx, id| {
            ctx.log.push(Ev::Remove { tgt: id_of(id) });
            ctx.builder.remove_datum(id)
        },
        |ctx: &mut Ctx| {
            let v = if reverse {
                ctx.builder.close_record_variant_with(gvariant::append_data_reverse::<(TypeInfo, bool)>)
            } else {
                ctx.builder.close_record_variant_with(gvariant::append_data::<(TypeInfo, bool)>)
            };
            ctx.log.push(Ev::Close { variant: vid_of(v) });
            v
        },
        &mut ctx,
    )?;
    let def = ctx.builder.build();
    Ok(Outcome {
        map: map.iter().map(|(k, v)| (vid_of(*k), vid_of(*v))).collect(),
        log: ctx.log,
        variants: def.variants().map(|v| v.data().map(id_of).collect()).collect(),
        keys: def
            .datum_definitions()
            .map(|d| {
                let (ti, u) = d.details();
                (id_of(d.id()), (d.name().to_owned(), ti.name.clone(), ti.size, ti.align, *u))
            })
            .collect(),
    })
}

pub fn check_one(h: &History, stats: &mut Stats, out: &mut Vec<Violation>) -> bool {
    let src = match catch_unwind(AssertUnwindSafe(|| build_native(h))) {
        Ok(Ok(def)) => def,
        _ => return false, // not a C20 matter
    };
    stats.definitions_built += 1;
    for strat in STRATS {
        match catch_unwind(AssertUnwindSafe(|| replay_native(&src, strat))) {
            Ok(Ok((o, def))) => {
                check_outcome(strat.tag(), &src, &o, h, stats, out);
                // the replayed definition must itself be a sound layout
                let mut v = Vec::new();
                {
                    let mut run = LayoutRun { stats, violations: &mut v, generate_every: 0 };
                    let mut flags = HistFlags::default();
                    check_definition(&def, h, &HashMap::new(), &mut run, &mut flags);
                }
                for mut x in v {
                    x.kind = format!("target-layout:{}:{}", x.property, x.kind);
                    x.property = "C20".to_owned();
                    x.detail = format!("target {}: {}", strat.tag(), x.detail);
                    out.push(x);
                }
            }
            Ok(Err(e)) => out.push(Violation::new(
                "C20",
                "replay-refused",
                format!("target {}: convert_record_definition returned Err({:?})", strat.tag(), e),
                h,
            )),
            Err(p) => out.push(Violation::new(
                "C20",
                "replay-panicked",
                format!("target {}: {}", strat.tag(), panic_text(p)),
                h,
            )),
        }
    }
    for reverse in [false, true] {
        let which = if reverse { "generic-reverse" } else { "generic" };
        match catch_unwind(AssertUnwindSafe(|| replay_generic(&src, reverse))) {
            Ok(Ok(o)) => check_outcome(which, &src, &o, h, stats, out),
            Ok(Err(e)) => out.push(Violation::new(
                "C20",
                "replay-refused",
                format!("target {}: convert_record_definition returned Err({:?})", which, e),
                h,
            )),
            Err(p) => out.push(Violation::new(
                "C20",
                "replay-panicked",
                format!("target {}: {}", which, panic_text(p)),
                h,
            )),
        }
    }
    true
}

pub fn mode(args: &Args) {
    let seed = args.u64("seed", 1);
    let count = args.u64("count", 5_000);
    let shard = args.u64("shard", 0);
    let mut stats = Stats::default();
    let mut violations = Vec::new();
    let mut total = 0u64;
    let mut distinct = Distinct::new();
    let mut samples = Vec::new();
    let mut evaluations = 0u64;
    let mut histories: Vec<History> = Vec::new();
    if shard == 0 {
        histories.extend(hist::directed_histories());
        // valid subsets of the directed hostile histories (same name replaced in one transition)
        histories.push(History {
            reqs: vec![
                hist::Req::Add { name: 0, shape: hist::sh(4, 4), uninit: false },
                hist::Req::Add { name: 1, shape: hist::sh(1, 1), uninit: true },
                hist::Req::Close { strat: Strat::Simple },
                hist::Req::Remove { k: 0 },
                hist::Req::Add { name: 0, shape: hist::sh(8, 8), uninit: false },
                hist::Req::Close { strat: Strat::Simple },
                hist::Req::Add { name: 2, shape: hist::sh(2, 2), uninit: false },
                hist::Req::Remove { k: 3 },
                hist::Req::Remove { k: 1 },
                hist::Req::Add { name: 3, shape: hist::sh(3, 1), uninit: false },
                hist::Req::Close { strat: Strat::Basic },
                hist::Req::Remove { k: 4 },
                hist::Req::Close { strat: Strat::Append },
            ],
            unique_names: false,
            origin: "directed:same-name-replaced-and-cancelled".to_owned(),
        });
    }
    let mut rng = Rng::stream(seed, 0x4000 + shard);
    for i in 0..count {
        histories.push(if i % 2 == 1 {
            crate::hostile_valid(&mut rng)
        } else {
            hist::gen_layout_history(&mut rng)
        });
    }
    for h in &histories {
        evaluations += 1;
        stats.histories += 1;
        let mut v = Vec::new();
        let built = check_one(h, &mut stats, &mut v);
        keep_violations(&mut violations, &mut total, v);
        if built && h.closes() >= 2 {
            distinct.add("C20", h.digest());
            if samples.len() < 4 && (h.digest() % 61 == 0 || samples.is_empty()) {
                samples.push(h.text());
            }
        }
    }
    distinct.dump(args);
    let report = Report {
        mode: "replaydef".to_owned(),
        seed,
        shard,
        evaluations,
        distinct_nontrivial: distinct.counts(),
        exhaustive_sweep: None,
        stats,
        extra: BTreeMap::new(),
        samples,
        violations,
        violations_total: total,
    };
    crate::write_report(args, &report);
}
