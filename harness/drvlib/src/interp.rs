//! The episode interpreter: draws operation sequences from the seed, applies them to a generated
//! module through [`Drv`], and compares every observation with the reference model.

use std::panic::{catch_unwind, AssertUnwindSafe};

use vtypes::ledger::{self, LedgerEvent, State as LState};
use vtypes::Rng;

use crate::{
    hook_events, panic_text, rng_for, Drv, FieldObs, Finding, Meta, Op, OpOut, Report, RunArgs,
    NSLOTS, SLOT_KIND,
};

#[derive(Clone, Debug, PartialEq, Eq)]
enum FState {
    Unwritten,
    /// the field holds the value made from `id` (or a clone of it); `serials` as last observed
    Val { id: u64, serials: Vec<u64> },
}

#[derive(Clone, Debug)]
struct SlotModel {
    variant: usize,
    fields: Vec<FState>,
}

struct Episode<'a> {
    drv: &'a mut dyn Drv,
    meta: &'a Meta,
    slots: Vec<Option<SlotModel>>,
    next_id: u64,
    ops: Vec<Op>,
    episode: u64,
    aborted: bool,
    // what the episode contained (non-triviality rules)
    n_new: usize,
    n_write: usize,
    n_convert: usize,
    n_convert_reuse: usize,
    n_unpack: usize,
    n_drop: usize,
    n_clone: usize,
    n_clone_panic: usize,
    n_ser: usize,
    n_de_bad: usize,
    n_droppable_stored: usize,
    n_vec: usize,
    n_move: usize,
    n_thread: usize,
    n_drop_panic: usize,
    getters_seen: std::collections::BTreeSet<(usize, usize)>,
}

fn trace_enabled() -> bool {
    static ON: std::sync::OnceLock<bool> = std::sync::OnceLock::new();
    *ON.get_or_init(|| std::env::args().any(|a| a == "--trace"))
}

fn prop_of(op: &Op) -> &'static str {
    match op {
        Op::New { .. }
        | Op::NewUninit { .. }
        | Op::FromUnpacked { .. }
        | Op::FromUnpackedUninit { .. }
        | Op::ReadAll { .. }
        | Op::Write { .. }
        | Op::Unpack { .. }
        | Op::Move { .. } => "C04",
        Op::Convert { .. } | Op::VecConvert { .. } => "C05",
        Op::ConvertDropPanic { .. } => "C06",
        Op::ThreadShare { .. } | Op::ThreadSend { .. } => "C14",
        Op::Drop { .. } => "C06",
        Op::Clone { .. } | Op::CloneFrom { .. } | Op::ClonePanic { .. } => "C16",
        Op::SerJson { .. }
        | Op::SerBin { .. }
        | Op::Expected { .. }
        | Op::DeJson { .. }
        | Op::DeBin { .. } => "C15",
    }
}

impl<'a> Episode<'a> {
    fn fresh(&mut self) -> u64 {
        let id = self.next_id;
        self.next_id += 1;
        id
    }

    fn finding(&self, report: &mut Report, property: &'static str, kind: &str, detail: String) {
        report.finding(Finding {
            property,
            kind: kind.to_owned(),
            detail,
            module: self.meta.module.to_owned(),
            cap: self.meta.cap,
            episode: self.episode,
            ops: self.ops.iter().map(|o| format!("{:?}", o)).collect(),
        });
    }

    /// Runs one operation; drains ledger and hook events; returns the output unless it panicked.
    fn exec(&mut self, op: Op, report: &mut Report) -> Option<OpOut> {
        let prop = prop_of(&op);
        if trace_enabled() {
            eprintln!("TRACE {} cap {} episode {}: {:?}", self.meta.module, self.meta.cap, self.episode, op);
        }
        self.ops.push(op.clone());
        let drv = &mut *self.drv;
        let out = match catch_unwind(AssertUnwindSafe(|| drv.op(&op))) {
            Ok(o) => o,
            Err(p) => {
                let text = panic_text(p);
                self.finding(report, prop, "generated-code-panicked", text);
                self.aborted = true;
                return None;
            }
        };
        report.count("ops_executed", 1);
        let expect_panic = matches!(op, Op::ClonePanic { .. } | Op::ConvertDropPanic { .. });
        if let Some(p) = &out.panicked {
            if !expect_panic {
                self.finding(report, prop, "generated-code-panicked", p.clone());
                self.aborted = true;
                return None;
            }
        }
        self.drain_events(prop, report);
        Some(out)
    }

    fn drain_events(&mut self, prop: &'static str, report: &mut Report) {
        for e in ledger::take_events() {
            let (kind, s) = match e {
                LedgerEvent::DoubleDrop(s) => ("double-drop", s),
                LedgerEvent::DropUnknown(s) => ("drop-of-unknown-value", s),
                LedgerEvent::DuplicateBirth(s) => ("duplicate-birth", s),
                LedgerEvent::Leak(s) => ("leak", s),
            };
            self.finding(report, "C06", kind, format!("ledger serial {:#x}", s));
            if prop != "C06" && prop != "C04" {
                self.finding(report, prop, kind, format!("ledger serial {:#x}", s));
            }
        }
        for e in hook_events() {
            let kind = e.split_whitespace().next().unwrap_or("hook").to_owned();
            self.finding(report, "C07", &format!("hook:{}", kind), e.clone());
            if kind == "LeakAtBufferDrop" || kind == "StoreOverOwned" || kind == "MovedOutAccess" {
                self.finding(report, "C06", &format!("hook:{}", kind), e);
            }
        }
    }

    fn expect_dropped(&self, serials: &[u64], what: &str, prop: &'static str, report: &mut Report) {
        for s in serials {
            report.count("ledger.death_checks", 1);
            if ledger::state(*s) != Some(LState::Dropped) {
                self.finding(
                    report,
                    prop,
                    "value-not-destroyed",
                    format!("{}: ledger serial {:#x} is {:?}", what, s, ledger::state(*s)),
                );
                if prop != "C06" {
                    self.finding(
                        report,
                        "C06",
                        "value-not-destroyed",
                        format!("{}: ledger serial {:#x} is {:?}", what, s, ledger::state(*s)),
                    );
                }
            }
        }
    }

    fn written_mask(&self, slot: usize) -> crate::Mask {
        let m = self.slots[slot].as_ref().unwrap();
        let mut mask: crate::Mask = 0;
        for (k, f) in m.fields.iter().enumerate() {
            if matches!(f, FState::Val { .. }) {
                mask |= 1 << k;
            }
        }
        mask
    }

    /// Unwritten fields that must be written before anything reads them (everything but
    /// `MaybeUninit`).
    fn pending(&self, slot: usize) -> Vec<usize> {
        let m = self.slots[slot].as_ref().unwrap();
        let vm = &self.meta.variants[m.variant];
        m.fields
            .iter()
            .enumerate()
            .filter(|(k, f)| **f == FState::Unwritten && !vm.fields[*k].may_stay_unwritten)
            .map(|(k, _)| k)
            .collect()
    }

    fn check_obs(
        &self,
        slot: usize,
        variant: usize,
        k: usize,
        o: &FieldObs,
        expect_id: u64,
        prop: &'static str,
        what: &str,
        report: &mut Report,
    ) {
        let fm = &self.meta.variants[variant].fields[k];
        let want = (fm.norm)(expect_id);
        report.count("field_values_compared", 1);
        if o.ident != want {
            self.finding(
                report,
                prop,
                "field-value-differs-from-model",
                format!(
                    "{}: slot {} ({}) variant {} field {} `{}`: {}: read {:#x}, model {:#x} (id {})",
                    what, slot, SLOT_KIND[slot.min(NSLOTS - 1)], variant, k, fm.name, fm.ty, o.ident, want, expect_id
                ),
            );
        }
        if !o.alive {
            self.finding(
                report,
                "C06",
                "record-holds-a-destroyed-value",
                format!("{}: variant {} field `{}` serials {:x?}", what, variant, fm.name, o.serials),
            );
        }
    }

    fn check_addr(&self, slot: usize, variant: usize, k: usize, o: &FieldObs, report: &mut Report) {
        let fm = &self.meta.variants[variant].fields[k];
        let vm = &self.meta.variants[variant];
        let base = self.drv.record_addr(slot);
        report.count("field_addresses_checked", 1);
        if fm.real_align != 0 && o.addr % fm.real_align != 0 {
            for p in ["C02", "C07"] {
                self.finding(
                    report,
                    p,
                    "misaligned-field-reference",
                    format!(
                        "slot {} ({}) variant {} field `{}`: {} at {:#x}, alignment {} (record at {:#x})",
                        slot, SLOT_KIND[slot], variant, fm.name, fm.ty, o.addr, fm.real_align, base
                    ),
                );
            }
        }
        if base != 0 && (o.addr < base || o.addr + fm.real_size > base + vm.size_of) {
            for p in ["C02", "C07"] {
                self.finding(
                    report,
                    p,
                    "field-outside-record",
                    format!(
                        "slot {} variant {} field `{}`: [{:#x}, +{}) record [{:#x}, +{})",
                        slot, variant, fm.name, o.addr, fm.real_size, base, vm.size_of
                    ),
                );
            }
        }
        if base != 0 && !crate::HOOKS_ON && o.addr.wrapping_sub(base) != fm.offset {
            // Informational only: no property says where inside the record type the buffer
            // starts; what a disagreement between accessor and constructor does to the values
            // is what the model comparison sees.
            report.count("accessor_offsets_that_differ_from_the_definition", 1);
        }
    }

    /// Reads back every written field of every live slot and compares with the model.
    fn readback(&mut self, prop: &'static str, what: &str, report: &mut Report) {
        for slot in 0..NSLOTS {
            if self.aborted {
                return;
            }
            let (variant, mask) = match &self.slots[slot] {
                Some(m) => (m.variant, self.written_mask(slot)),
                None => continue,
            };
            match self.drv.variant_in(slot) {
                Some(v) if v == variant => {}
                other => {
                    self.finding(
                        report,
                        prop,
                        "slot-variant-differs",
                        format!("slot {} holds {:?}, model {}", slot, other, variant),
                    );
                    self.aborted = true;
                    return;
                }
            }
            let out = match self.exec(Op::ReadAll { slot, mask }, report) {
                Some(o) => o,
                None => return,
            };
            self.ops.pop(); // read-backs are implicit after every operation
            let nfields = self.meta.variants[variant].fields.len();
            if out.obs.len() != nfields {
                self.finding(report, prop, "driver-error", format!("{} observations for {} fields", out.obs.len(), nfields));
                self.aborted = true;
                return;
            }
            for k in 0..nfields {
                let o = &out.obs[k];
                if o.skipped {
                    continue;
                }
                let id = match &self.slots[slot].as_ref().unwrap().fields[k] {
                    FState::Val { id, .. } => *id,
                    FState::Unwritten => continue,
                };
                self.check_obs(slot, variant, k, o, id, prop, what, report);
                self.check_addr(slot, variant, k, o, report);
                self.getters_seen.insert((variant, k));
                if let FState::Val { serials, .. } = &mut self.slots[slot].as_mut().unwrap().fields[k] {
                    *serials = o.serials.clone();
                }
            }
        }
    }

    fn serials_of(&self, slot: usize) -> Vec<u64> {
        let mut v = Vec::new();
        if let Some(m) = &self.slots[slot] {
            for f in &m.fields {
                if let FState::Val { serials, .. } = f {
                    v.extend(serials.iter().copied());
                }
            }
        }
        v
    }

    fn ids_of(&self, slot: usize) -> Option<Vec<u64>> {
        let m = self.slots[slot].as_ref()?;
        m.fields
            .iter()
            .map(|f| match f {
                FState::Val { id, .. } => Some(*id),
                FState::Unwritten => None,
            })
            .collect()
    }

    fn all_written(&self, slot: usize) -> bool {
        self.slots[slot]
            .as_ref()
            .map_or(false, |m| m.fields.iter().all(|f| matches!(f, FState::Val { .. })))
    }

    /// All fields are written, or are `MaybeUninit` ones that may stay unwritten.
    fn readable_as_a_whole(&self, slot: usize) -> bool {
        self.slots[slot].is_some() && self.pending(slot).is_empty()
    }

    fn count_droppable(&mut self, variant: usize, ks: impl Iterator<Item = usize>) {
        for k in ks {
            if self.meta.variants[variant].fields[k].droppable {
                self.n_droppable_stored += 1;
            }
        }
    }
}

fn covered(report: &mut Report, meta: &Meta, what: String) {
    report.functions_covered.insert(format!("{}::{}", meta.module, what));
}

/// Number of generated functions of a module (for the coverage ratio).
pub fn function_total(meta: &Meta) -> usize {
    let mut n = 0;
    for (v, vm) in meta.variants.iter().enumerate() {
        n += 6 + 2 * vm.fields.len(); // new, new_uninit, 2 x From<Unpacked>, unpack, drop, accessors
        if v > 0 {
            n += 4;
        }
        if meta.has_clone {
            n += 2;
        }
        if meta.has_serde {
            n += 2;
        }
    }
    n
}

/// Static layout checks of a compiled module (C02 / C03 / C11 run-time half).
pub fn static_checks(meta: &Meta, report: &mut Report) {
    let f = |property: &'static str, kind: &str, detail: String, report: &mut Report| {
        report.finding(Finding {
            property,
            kind: kind.to_owned(),
            detail,
            module: meta.module.to_owned(),
            cap: meta.cap,
            episode: u64::MAX,
            ops: vec![format!("static layout checks; history: {}", meta.history)],
        });
    };
    report.count("modules_x_capacities_checked", 1);
    if meta.uninit_size_of < meta.max_size {
        f(
            "C02",
            "record-smaller-than-published-capacity",
            format!("RecordUninitialized<{}>: size {} < MAX_SIZE {}", meta.cap, meta.uninit_size_of, meta.max_size),
            report,
        );
    }
    for (v, vm) in meta.variants.iter().enumerate() {
        report.count("record_types_measured", 1);
        if vm.size_of != meta.uninit_size_of || vm.align_of != meta.uninit_align_of {
            f(
                "C03",
                "record-types-differ-in-layout",
                format!(
                    "CappedRecord{}<{}>: size {} align {}, RecordUninitialized: size {} align {}",
                    v, meta.cap, vm.size_of, vm.align_of, meta.uninit_size_of, meta.uninit_align_of
                ),
                report,
            );
        }
        if let Some(first) = meta.variants.first() {
            if vm.size_of != first.size_of || vm.align_of != first.align_of {
                f(
                    "C03",
                    "record-types-differ-in-layout",
                    format!(
                        "CappedRecord{}<{}>: size {} align {}, CappedRecord0: size {} align {}",
                        v, meta.cap, vm.size_of, vm.align_of, first.size_of, first.align_of
                    ),
                    report,
                );
            }
        }
        if vm.size_of < meta.max_size {
            f(
                "C02",
                "record-smaller-than-published-capacity",
                format!("CappedRecord{}<{}>: size {} < MAX_SIZE {}", v, meta.cap, vm.size_of, meta.max_size),
                report,
            );
        }
        for fm in &vm.fields {
            report.count("field_layouts_checked", 1);
            if fm.real_align == 0 || vm.align_of % fm.real_align != 0 {
                f(
                    "C02",
                    "record-alignment-not-a-multiple-of-field-alignment",
                    format!(
                        "CappedRecord{}: align {}, field `{}`: {} align {}",
                        v, vm.align_of, fm.name, fm.ty, fm.real_align
                    ),
                    report,
                );
            }
            // the uninitialised record is one of the generated record types too: storage that is
            // handed out as that type must be aligned for whatever variant is built in it
            if fm.real_align != 0 && meta.uninit_align_of % fm.real_align != 0 {
                f(
                    "C02",
                    "record-alignment-not-a-multiple-of-field-alignment",
                    format!(
                        "RecordUninitialized<{}>: align {}, field `{}` of variant {}: {} align {}",
                        meta.cap, meta.uninit_align_of, fm.name, v, fm.ty, fm.real_align
                    ),
                    report,
                );
            }
            if fm.offset % fm.real_align.max(1) != 0 {
                f(
                    "C02",
                    "offset-not-aligned-for-the-real-type",
                    format!("variant {} field `{}`: {} offset {} align {}", v, fm.name, fm.ty, fm.offset, fm.real_align),
                    report,
                );
            }
            if fm.offset + fm.real_size > meta.max_size {
                f(
                    "C02",
                    "field-beyond-published-capacity",
                    format!(
                        "variant {} field `{}`: offset {} + size {} > MAX_SIZE {}",
                        v, fm.name, fm.offset, fm.real_size, meta.max_size
                    ),
                    report,
                );
            }
            if fm.real_size != fm.size || fm.real_align != fm.align {
                f(
                    "C11",
                    "compiled-with-wrong-type-information",
                    format!(
                        "variant {} field `{}`: {} recorded {}/{} real {}/{}",
                        v, fm.name, fm.ty, fm.size, fm.align, fm.real_size, fm.real_align
                    ),
                    report,
                );
            }
        }
    }
}

pub fn run_module(drv: &mut dyn Drv, args: &RunArgs, report: &mut Report) {
    let meta = drv.meta();
    if let Some(mods) = &args.modules {
        if !mods.iter().any(|m| m == meta.module) {
            return;
        }
    }
    if args.skip_modules.iter().any(|m| m == meta.module) {
        return;
    }
    if let Some(caps) = &args.only_caps {
        // capacities are given as the surplus over the published one
        if !caps.iter().any(|c| meta.max_size + c == meta.cap) {
            return;
        }
    }
    if let Some((m, cap, ep)) = &args.replay {
        if m != meta.module || *cap != meta.cap {
            return;
        }
        static_checks(&meta, report);
        if *ep == SERDE_SWEEP || *ep == CLONE_SWEEP {
            run_sweeps(drv, &meta, args, report);
        } else {
            run_episode(drv, &meta, args, *ep, report);
        }
        return;
    }
    static_checks(&meta, report);
    report.functions_total.insert(meta.module.to_owned(), function_total(&meta) as u64);
    if args.shard == 0 && args.episodes > 0 && !args.no_sweeps {
        run_sweeps(drv, &meta, args, report);
    }
    let mut e = args.shard;
    while e < args.episodes {
        run_episode(drv, &meta, args, e, report);
        e += args.nshards;
    }
}

fn new_episode<'a>(drv: &'a mut dyn Drv, meta: &'a Meta, episode: u64) -> Episode<'a> {
    Episode {
        drv,
        meta,
        slots: vec![None; NSLOTS],
        next_id: 1 + (episode % 1000) * 1000,
        ops: Vec::new(),
        episode,
        aborted: false,
        n_new: 0,
        n_write: 0,
        n_convert: 0,
        n_convert_reuse: 0,
        n_unpack: 0,
        n_drop: 0,
        n_clone: 0,
        n_clone_panic: 0,
        n_ser: 0,
        n_de_bad: 0,
        n_droppable_stored: 0,
        n_vec: 0,
        n_move: 0,
        n_thread: 0,
        n_drop_panic: 0,
        getters_seen: Default::default(),
    }
}

/// Episode numbers of the deterministic sweeps (reported in findings and replayable).
pub const SERDE_SWEEP: u64 = u64::MAX - 1;
pub const CLONE_SWEEP: u64 = u64::MAX - 2;

/// Deserialises a malformed input: it must be rejected with an error, without a panic, and
/// nothing decoded before the failure may stay alive.
fn expect_rejected(ep: &mut Episode, op: Op, what: &str, report: &mut Report) {
    let live_before = ledger::live_count();
    let z0 = ledger::totals();
    let out = match ep.exec(op, report) {
        Some(o) => o,
        None => return,
    };
    report.count("malformed_inputs", 1);
    if out.err.is_none() {
        ep.finding(report, "C15", "malformed-input-accepted", format!("{}: {:?}", what, ep.ops.last()));
        ep.aborted = true;
        return;
    }
    let z1 = ledger::totals();
    if ledger::live_count() != live_before || (z1.zst_births - z0.zst_births) != (z1.zst_deaths - z0.zst_deaths) {
        ep.finding(
            report,
            "C15",
            "rejected-input-leaked-decoded-values",
            format!(
                "{}: {} live values before, {} after; zero-size births {} deaths {}",
                what,
                live_before,
                ledger::live_count(),
                z1.zst_births - z0.zst_births,
                z1.zst_deaths - z0.zst_deaths
            ),
        );
    }
}

/// Every position of the first missing / undecodable element, every truncation of the bincode
/// form, for every variant (C15); every clone point at which a field clone may panic, for
/// `clone` and `clone_from`, for every variant (C16).
fn run_sweeps(drv: &mut dyn Drv, meta: &Meta, args: &RunArgs, report: &mut Report) {
    if meta.has_serde && !args.no_serde {
        let _ = ledger::close_epoch();
        let _ = hook_events();
        let mut ep = new_episode(drv, meta, SERDE_SWEEP);
        for (v, vm) in meta.variants.iter().enumerate() {
            if ep.aborted {
                break;
            }
            let n = vm.fields.len();
            let ids: Vec<u64> = (0..n).map(|_| ep.fresh()).collect();
            if ep.exec(Op::New { slot: 0, variant: v, ids: ids.clone() }, report).is_none() {
                break;
            }
            ep.slots[0] = Some(SlotModel { variant: v, fields: ids.iter().map(|id| FState::Val { id: *id, serials: vec![] }).collect() });
            let expected = match ep.exec(Op::Expected { variant: v, ids: ids.clone() }, report) {
                Some(o) => o,
                None => break,
            };
            let (etext, ebytes) = (expected.text.unwrap_or_default(), expected.bytes.unwrap_or_default());
            let sj = ep.exec(Op::SerJson { slot: 0 }, report);
            let sb = ep.exec(Op::SerBin { slot: 0 }, report);
            if sj.as_ref().and_then(|o| o.text.as_deref()) != Some(etext.as_str()) {
                ep.finding(report, "C15", "json-encoding-differs-from-declaration-order-model", format!("variant {}: record {:?} model {}", v, sj.and_then(|o| o.text), etext));
            }
            if sb.as_ref().and_then(|o| o.bytes.as_deref()) != Some(&ebytes[..]) {
                ep.finding(report, "C15", "bincode-encoding-differs-from-declaration-order-model", format!("variant {}", v));
            }
            report.count("encodings_compared", 2);
            let value_ok = !vm.fields.iter().any(|f| f.ty == "u128");
            let elems = split_json_array(&etext);
            let vias: &[bool] = if value_ok { &[false, true] } else { &[false] };
            for via_value in vias {
                for k in 0..n {
                    // too few elements: the first k only
                    expect_rejected(&mut ep, Op::DeJson { slot: 1, variant: v, text: format!("[{}]", elems[..k].join(",")), via_value: *via_value }, &format!("variant {}: {} of {} elements", v, k, n), report);
                    // element k is not decodable
                    let mut e = elems.clone();
                    e[k] = "{\"undecodable\":[1,2]}".to_owned();
                    expect_rejected(&mut ep, Op::DeJson { slot: 1, variant: v, text: format!("[{}]", e.join(",")), via_value: *via_value }, &format!("variant {}: element {} undecodable", v, k), report);
                    if ep.aborted {
                        break;
                    }
                }
                let mut e = elems.clone();
                e.push("7".to_owned());
                expect_rejected(&mut ep, Op::DeJson { slot: 1, variant: v, text: format!("[{}]", e.join(",")), via_value: *via_value }, &format!("variant {}: one element too many", v), report);
                // the own encoding round trips
                if !ep.aborted {
                    if let Some(out) = ep.exec(Op::DeJson { slot: 1, variant: v, text: etext.clone(), via_value: *via_value }, report) {
                        if let Some(e) = out.err {
                            ep.finding(report, "C15", "own-encoding-rejected", format!("variant {}: {}", v, e));
                        } else {
                            ep.slots[1] = Some(SlotModel { variant: v, fields: ids.iter().map(|id| FState::Val { id: *id, serials: vec![] }).collect() });
                            ep.readback("C15", "after decoding the record's own JSON encoding", report);
                            let _ = ep.exec(Op::Drop { slot: 1 }, report);
                            ep.slots[1] = None;
                            report.count("round_trips", 1);
                        }
                    }
                }
            }
            for k in 0..ebytes.len() {
                if ep.aborted {
                    break;
                }
                expect_rejected(&mut ep, Op::DeBin { slot: 1, variant: v, bytes: ebytes[..k].to_vec() }, &format!("variant {}: bincode truncated at byte {} of {}", v, k, ebytes.len()), report);
            }
            if !ep.aborted {
                if let Some(out) = ep.exec(Op::DeBin { slot: 1, variant: v, bytes: ebytes.clone() }, report) {
                    if let Some(e) = out.err {
                        ep.finding(report, "C15", "own-encoding-rejected", format!("variant {} (bincode): {}", v, e));
                    } else {
                        ep.slots[1] = Some(SlotModel { variant: v, fields: ids.iter().map(|id| FState::Val { id: *id, serials: vec![] }).collect() });
                        ep.readback("C15", "after decoding the record's own bincode encoding", report);
                        let _ = ep.exec(Op::Drop { slot: 1 }, report);
                        ep.slots[1] = None;
                        report.count("round_trips", 1);
                    }
                }
            }
            if !ep.aborted {
                let _ = ep.exec(Op::Drop { slot: 0 }, report);
                ep.slots[0] = None;
            }
            report.count("sweep.serde_variants_swept", 1);
        }
        let aborted = ep.aborted;
        for e in ledger::close_epoch() {
            if !aborted {
                ep.finding(report, "C15", "ledger", format!("{:?} at the end of the serialisation sweep", e));
            }
        }
        report.distinct.entry("C15").or_default().insert(vtypes::fnv64(format!("{}|{}|serde-sweep", meta.module, meta.cap).as_bytes()));
    }
    if meta.has_clone {
        let _ = ledger::close_epoch();
        let _ = hook_events();
        let mut ep = new_episode(drv, meta, CLONE_SWEEP);
        for (v, vm) in meta.variants.iter().enumerate() {
            if ep.aborted {
                break;
            }
            let n = vm.fields.len();
            let points: usize = vm.fields.iter().map(|f| f.clone_points).sum();
            if points == 0 {
                continue;
            }
            let ids: Vec<u64> = (0..n).map(|_| ep.fresh()).collect();
            if ep.exec(Op::New { slot: 0, variant: v, ids: ids.clone() }, report).is_none() {
                break;
            }
            ep.slots[0] = Some(SlotModel { variant: v, fields: ids.iter().map(|id| FState::Val { id: *id, serials: vec![] }).collect() });
            for k in 1..=points {
                // clone
                let live_before = ledger::live_count();
                if let Some(out) = ep.exec(Op::ClonePanic { from: 0, to: 1, k, assign: false }, report) {
                    report.count("clone_panics_injected", 1);
                    if out.panicked.is_none() {
                        ep.finding(report, "C16", "injected-clone-panic-swallowed", format!("variant {} clone point {} of {}", v, k, points));
                    }
                    if ledger::live_count() != live_before {
                        ep.finding(report, "C16", "partial-clone-leaked", format!("variant {} clone point {}: {} live values before, {} after", v, k, live_before, ledger::live_count()));
                    }
                }
                // clone_from into a fresh target
                let ids2: Vec<u64> = (0..n).map(|_| ep.fresh()).collect();
                if ep.exec(Op::New { slot: 1, variant: v, ids: ids2 }, report).is_none() {
                    break;
                }
                if let Some(out) = ep.exec(Op::ClonePanic { from: 0, to: 1, k, assign: true }, report) {
                    report.count("clone_panics_injected", 1);
                    if out.panicked.is_none() {
                        ep.finding(report, "C16", "injected-clone-panic-swallowed", format!("variant {} clone_from clone point {} of {}", v, k, points));
                    }
                }
                // the half-assigned target still drops cleanly (ledger: every value exactly once)
                let _ = ep.exec(Op::Drop { slot: 1 }, report);
                if ep.aborted {
                    break;
                }
            }
            // the source is untouched by all of this
            ep.readback("C16", "after the panicking clones of the sweep", report);
            let _ = ep.exec(Op::Drop { slot: 0 }, report);
            ep.slots[0] = None;
            report.count("sweep.clone_variants_swept", 1);
        }
        let aborted = ep.aborted;
        for e in ledger::close_epoch() {
            if !aborted {
                ep.finding(report, "C16", "ledger", format!("{:?} at the end of the clone-panic sweep", e));
                ep.finding(report, "C06", "ledger", format!("{:?} at the end of the clone-panic sweep", e));
            }
        }
        report.distinct.entry("C16").or_default().insert(vtypes::fnv64(format!("{}|{}|clone-sweep", meta.module, meta.cap).as_bytes()));
    }
}

fn run_episode(drv: &mut dyn Drv, meta: &Meta, args: &RunArgs, episode: u64, report: &mut Report) {
    let mut rng = rng_for(args.seed, meta.module, meta.cap, episode);
    let _ = ledger::close_epoch();
    let _ = hook_events();
    let zst0 = ledger::totals();
    let mut ep = new_episode(drv, meta, episode);
    report.count("episodes", 1);
    let nops = rng.range(1, args.max_ops.max(1));
    let nvariants = meta.variants.len();
    let mut step = 0;
    while step < nops && !ep.aborted {
        step += 1;
        let live: Vec<usize> = (0..NSLOTS).filter(|s| ep.slots[*s].is_some()).collect();
        let empty: Vec<usize> = (0..NSLOTS).filter(|s| ep.slots[*s].is_none()).collect();
        // slots with unwritten plain fields come first: nothing else may touch them
        let needy: Vec<usize> = live.iter().copied().filter(|s| !ep.pending(*s).is_empty()).collect();
        let choice = if !needy.is_empty() && rng.chance(3, 4) {
            100
        } else if live.is_empty() {
            0
        } else if args.threads && rng.chance(1, 4) {
            23
        } else {
            let c = rng.below(25);
            // (23 is the thread operation, only drawn above)
            if c == 23 { 24 } else { c }
        };
        let what;
        let prop;
        match choice {
            // ---- write a pending field ------------------------------------------------------
            100 => {
                let slot = *rng.pick(&needy);
                let k = *rng.pick(&ep.pending(slot));
                let id = ep.fresh();
                let variant = ep.slots[slot].as_ref().unwrap().variant;
                if ep.exec(Op::Write { slot, field: k, id }, report).is_none() {
                    break;
                }
                covered(report, meta, format!("v{}::{}_mut", variant, meta.variants[variant].fields[k].name));
                ep.slots[slot].as_mut().unwrap().fields[k] = FState::Val { id, serials: vec![] };
                ep.n_write += 1;
                what = "after writing a field left uninitialised";
                prop = "C04";
            }
            // ---- construct -------------------------------------------------------------------
            0..=4 if !empty.is_empty() => {
                let slot = *rng.pick(&empty);
                let variant = rng.below(nvariants);
                let vm = &meta.variants[variant];
                let ids: Vec<u64> = vm.fields.iter().map(|_| ep.fresh()).collect();
                let form = rng.below(4);
                let op = match form {
                    0 => Op::New { slot, variant, ids: ids.clone() },
                    1 => Op::NewUninit { slot, variant, ids: ids.clone() },
                    2 => Op::FromUnpacked { slot, variant, ids: ids.clone() },
                    _ => Op::FromUnpackedUninit { slot, variant, ids: ids.clone() },
                };
                if ep.exec(op, report).is_none() {
                    break;
                }
                covered(report, meta, format!("v{}::{}", variant, ["new", "new_uninit", "from_unpacked", "from_unpacked_uninit"][form]));
                let full = form == 0 || form == 2;
                let fields: Vec<FState> = vm
                    .fields
                    .iter()
                    .enumerate()
                    .map(|(k, fm)| {
                        if full || !fm.uninit {
                            FState::Val { id: ids[k], serials: vec![] }
                        } else {
                            FState::Unwritten
                        }
                    })
                    .collect();
                ep.count_droppable(variant, (0..vm.fields.len()).filter(|k| full || !vm.fields[*k].uninit));
                ep.slots[slot] = Some(SlotModel { variant, fields });
                ep.n_new += 1;
                what = "after construction";
                prop = "C04";
            }
            // ---- write -----------------------------------------------------------------------
            5..=8 => {
                let slot = *rng.pick(&live);
                let variant = ep.slots[slot].as_ref().unwrap().variant;
                let nf = meta.variants[variant].fields.len();
                if nf == 0 {
                    continue;
                }
                let k = rng.below(nf);
                let fm = &meta.variants[variant].fields[k];
                // assigning through `_mut` drops the previous value: a droppable field must hold one
                let old = ep.slots[slot].as_ref().unwrap().fields[k].clone();
                if fm.droppable && old == FState::Unwritten {
                    continue;
                }
                let id = ep.fresh();
                if ep.exec(Op::Write { slot, field: k, id }, report).is_none() {
                    break;
                }
                covered(report, meta, format!("v{}::{}_mut", variant, fm.name));
                if let FState::Val { serials, .. } = &old {
                    ep.expect_dropped(serials, "value overwritten through the mutable accessor", "C06", report);
                }
                ep.slots[slot].as_mut().unwrap().fields[k] = FState::Val { id, serials: vec![] };
                if fm.droppable {
                    ep.n_droppable_stored += 1;
                }
                ep.n_write += 1;
                what = "after a write through a mutable accessor";
                prop = "C04";
            }
            // ---- convert ---------------------------------------------------------------------
            9..=12 => {
                let candidates: Vec<usize> = live
                    .iter()
                    .copied()
                    .filter(|s| {
                        let m = ep.slots[*s].as_ref().unwrap();
                        if m.variant + 1 >= nvariants {
                            return false;
                        }
                        // removed fields are read by the conversion
                        let tv = &meta.variants[m.variant + 1];
                        tv.minus.iter().all(|k| {
                            matches!(m.fields[*k], FState::Val { .. })
                                || meta.variants[m.variant].fields[*k].may_stay_unwritten
                        })
                    })
                    .collect();
                if candidates.is_empty() {
                    continue;
                }
                let slot = *rng.pick(&candidates);
                let src = ep.slots[slot].clone().unwrap();
                let tvi = src.variant + 1;
                let tv = &meta.variants[tvi];
                let form = if meta.has_returning_forms { rng.below(4) as u8 } else { rng.below(2) as u8 };
                let ids: Vec<u64> = tv.plus.iter().map(|_| ep.fresh()).collect();
                // returned removed fields are observed when they were written
                let mut mask: crate::Mask = 0;
                for (i, k) in tv.minus.iter().enumerate() {
                    if matches!(src.fields[*k], FState::Val { .. }) {
                        mask |= 1 << i;
                    }
                }
                let out = match ep.exec(Op::Convert { slot, form, ids: ids.clone(), mask }, report) {
                    Some(o) => o,
                    None => break,
                };
                covered(report, meta, format!("v{}::from_previous_form{}", tvi, form));
                ep.n_convert += 1;
                if tv.byte_reuse_pairs > 0 {
                    ep.n_convert_reuse += 1;
                    report.count("conversions_with_byte_reuse", 1);
                }
                // model transition
                let sv = &meta.variants[src.variant];
                let mut fields: Vec<FState> = Vec::with_capacity(tv.fields.len());
                for (k, fm) in tv.fields.iter().enumerate() {
                    if let Some(pi) = tv.plus.iter().position(|p| *p == k) {
                        if form % 2 == 0 || !fm.uninit {
                            fields.push(FState::Val { id: ids[pi], serials: vec![] });
                            if fm.droppable {
                                ep.n_droppable_stored += 1;
                            }
                        } else {
                            fields.push(FState::Unwritten);
                        }
                    } else {
                        // carried over: same datum
                        let sk = sv.fields.iter().position(|f| f.datum_id == fm.datum_id);
                        match sk {
                            Some(sk) => fields.push(src.fields[sk].clone()),
                            None => {
                                ep.finding(report, "C05", "driver-error", format!("datum {} not in the source variant", fm.datum_id));
                                fields.push(FState::Unwritten);
                            }
                        }
                    }
                }
                // removed data
                let returning = form >= 2;
                if returning {
                    if out.obs.len() != tv.minus.len() {
                        ep.finding(report, "C05", "driver-error", format!("{} returned observations for {} removed fields", out.obs.len(), tv.minus.len()));
                    } else {
                        for (i, k) in tv.minus.iter().enumerate() {
                            if let FState::Val { id, serials } = &src.fields[*k] {
                                let o = &out.obs[i];
                                report.count("returned_values_compared", 1);
                                let want = (sv.fields[*k].norm)(*id);
                                if o.skipped || o.ident != want {
                                    ep.finding(
                                        report,
                                        "C05",
                                        "returned-value-differs-from-model",
                                        format!(
                                            "conversion {}->{} form {}: removed field `{}`: returned {:#x}, model {:#x}",
                                            src.variant, tvi, form, sv.fields[*k].name, o.ident, want
                                        ),
                                    );
                                }
                                if !o.alive || (o.serials != *serials && !serials.is_empty()) {
                                    ep.finding(
                                        report,
                                        "C06",
                                        "returned-value-not-alive-or-not-the-stored-one",
                                        format!("removed field `{}`: returned serials {:x?} alive {}, stored {:x?}", sv.fields[*k].name, o.serials, o.alive, serials),
                                    );
                                }
                            }
                        }
                    }
                }
                for k in &tv.minus {
                    if let FState::Val { serials, .. } = &src.fields[*k] {
                        // destroyed by the conversion (or handed back, observed and then destroyed by the driver)
                        ep.expect_dropped(
                            serials,
                            &format!("field `{}` removed by conversion {}->{} form {}", sv.fields[*k].name, src.variant, tvi, form),
                            "C06",
                            report,
                        );
                    }
                }
                ep.slots[slot] = Some(SlotModel { variant: tvi, fields });
                what = "after a conversion to the next variant";
                prop = "C05";
            }
            // ---- conversion during which a removed value's destructor panics ---------------------
            24 if args.drop_panics => {
                let candidates: Vec<(usize, usize)> = live
                    .iter()
                    .copied()
                    .filter_map(|s| {
                        let m = ep.slots[s].as_ref().unwrap();
                        if m.variant + 1 >= nvariants {
                            return None;
                        }
                        let tv = &meta.variants[m.variant + 1];
                        let sv = &meta.variants[m.variant];
                        if !tv.minus.iter().all(|k| matches!(m.fields[*k], FState::Val { .. })) {
                            return None;
                        }
                        // destructors of instrumented values that the conversion runs
                        let points: usize = tv.minus.iter().map(|k| sv.fields[*k].clone_points).sum();
                        if points == 0 || !ep.readable_as_a_whole(s) {
                            None
                        } else {
                            Some((s, points))
                        }
                    })
                    .collect();
                if candidates.is_empty() {
                    continue;
                }
                let (slot, points) = *rng.pick(&candidates);
                let src = ep.slots[slot].clone().unwrap();
                let tv = &meta.variants[src.variant + 1];
                let ids: Vec<u64> = tv.plus.iter().map(|_| ep.fresh()).collect();
                let form = rng.below(2) as u8;
                let k = rng.range(1, points);
                let all_serials = ep.serials_of(slot);
                let out = match ep.exec(Op::ConvertDropPanic { slot, form, ids: ids.clone(), k }, report) {
                    Some(o) => o,
                    None => break,
                };
                report.count("drop_panics_injected", 1);
                if out.panicked.is_none() {
                    ep.finding(report, "C06", "injected-destructor-panic-swallowed", format!("conversion {}->{} form {} countdown {} of {}", src.variant, src.variant + 1, form, k, points));
                }
                // The conversion consumed the record and unwound. No value may have died twice
                // (a second death is a ledger event of its own, drained by `exec`), and the
                // removed values, which the conversion had read out, must all be dead. What the
                // *new* record would have held (carried-over and supplied values) is leaked by
                // Rust itself: a return value is not dropped when a local's destructor panics
                // at the end of the function (rust-lang/rust#47949). No property promises more
                // under a panicking destructor, so those values are forgotten, not reported.
                let sv = &meta.variants[src.variant];
                let mut removed_serials: Vec<u64> = Vec::new();
                for k in &tv.minus {
                    if let FState::Val { serials, .. } = &src.fields[*k] {
                        removed_serials.extend(serials.iter().copied());
                    }
                }
                let _ = sv;
                ep.expect_dropped(&removed_serials, "value removed by a conversion that unwound", "C06", report);
                let leaked = ledger::forget(&all_serials);
                report.count("values_leaked_by_rust_when_a_conversion_unwinds", leaked as u64);
                ep.n_drop_panic += 1;
                let plus_serials: Vec<u64> = tv
                    .plus
                    .iter()
                    .enumerate()
                    .filter(|(pi, k)| tv.fields[**k].tracked > 0 && (form == 0 || !tv.fields[**k].uninit) && *pi < ids.len())
                    .flat_map(|(pi, k)| if tv.fields[*k].tracked == 2 { vec![ids[pi], ids[pi] + vtypes::PAIR_SERIAL_OFFSET] } else { vec![ids[pi]] })
                    .collect();
                let leaked = ledger::forget(&plus_serials);
                report.count("values_leaked_by_rust_when_a_conversion_unwinds", leaked as u64);
                ep.slots[slot] = None;
                what = "after a conversion that unwound";
                prop = "C06";
            }
            // ---- unpack ----------------------------------------------------------------------
            13 | 14 => {
                let candidates: Vec<usize> = live.iter().copied().filter(|s| ep.readable_as_a_whole(*s)).collect();
                if candidates.is_empty() {
                    continue;
                }
                let slot = *rng.pick(&candidates);
                let m = ep.slots[slot].clone().unwrap();
                let mask = ep.written_mask(slot);
                let out = match ep.exec(Op::Unpack { slot, mask }, report) {
                    Some(o) => o,
                    None => break,
                };
                covered(report, meta, format!("v{}::unpack", m.variant));
                ep.n_unpack += 1;
                if out.obs.len() == m.fields.len() {
                    for (k, f) in m.fields.iter().enumerate() {
                        if let FState::Val { id, serials } = f {
                            let o = &out.obs[k];
                            ep.check_obs(slot, m.variant, k, o, *id, "C04", "unpack", report);
                            if o.serials != *serials && !serials.is_empty() {
                                ep.finding(report, "C06", "handed-back-value-is-not-the-stored-one", format!("field {}: {:x?} vs {:x?}", k, o.serials, serials));
                            }
                        }
                    }
                } else {
                    ep.finding(report, "C04", "driver-error", "unpack observation count".to_owned());
                }
                ep.expect_dropped(&ep.serials_of(slot), "value handed back by unpack and then dropped by the caller", "C06", report);
                ep.slots[slot] = None;
                what = "after unpacking another record";
                prop = "C04";
            }
            // ---- drop ------------------------------------------------------------------------
            15 | 16 => {
                let candidates: Vec<usize> = live.iter().copied().filter(|s| ep.readable_as_a_whole(*s)).collect();
                if candidates.is_empty() {
                    continue;
                }
                let slot = *rng.pick(&candidates);
                let variant = ep.slots[slot].as_ref().unwrap().variant;
                let serials = ep.serials_of(slot);
                if ep.exec(Op::Drop { slot }, report).is_none() {
                    break;
                }
                covered(report, meta, format!("v{}::drop", variant));
                ep.n_drop += 1;
                ep.expect_dropped(&serials, &format!("record of variant {} dropped", variant), "C06", report);
                ep.slots[slot] = None;
                what = "after dropping another record";
                prop = "C06";
            }
            // ---- move ------------------------------------------------------------------------
            17 if !empty.is_empty() => {
                let from = *rng.pick(&live);
                let to = *rng.pick(&empty);
                if ep.exec(Op::Move { from, to }, report).is_none() {
                    break;
                }
                ep.slots[to] = ep.slots[from].take();
                ep.n_move += 1;
                what = "after moving a record to another placement";
                prop = "C04";
            }
            // ---- clone -----------------------------------------------------------------------
            18 | 19 if meta.has_clone => {
                let candidates: Vec<usize> = live.iter().copied().filter(|s| ep.all_written(*s) || ep.readable_as_a_whole(*s)).collect();
                if candidates.is_empty() {
                    continue;
                }
                let from = *rng.pick(&candidates);
                let src = ep.slots[from].clone().unwrap();
                let same: Vec<usize> = live
                    .iter()
                    .copied()
                    .filter(|s| *s != from && ep.slots[*s].as_ref().unwrap().variant == src.variant && ep.readable_as_a_whole(*s))
                    .collect();
                let vm = &meta.variants[src.variant];
                let clone_points: usize = vm.fields.iter().enumerate().filter(|(k, _)| matches!(src.fields[*k], FState::Val { .. })).map(|(_, f)| f.clone_points).sum();
                let mode = rng.below(4);
                if mode == 0 && !same.is_empty() {
                    // clone_from
                    let to = *rng.pick(&same);
                    let old = ep.serials_of(to);
                    if ep.exec(Op::CloneFrom { from, to }, report).is_none() {
                        break;
                    }
                    covered(report, meta, format!("v{}::clone_from", src.variant));
                    ep.expect_dropped(&old, "previous contents of a clone_from target", "C16", report);
                    let fields = src
                        .fields
                        .iter()
                        .map(|f| match f {
                            FState::Val { id, .. } => FState::Val { id: *id, serials: vec![] },
                            FState::Unwritten => FState::Unwritten,
                        })
                        .collect();
                    ep.slots[to] = Some(SlotModel { variant: src.variant, fields });
                    ep.n_clone += 1;
                } else if mode == 1 && clone_points > 0 && (!empty.is_empty() || !same.is_empty()) {
                    // injected panic inside a field's clone
                    let k = rng.range(1, clone_points);
                    let assign = !same.is_empty() && rng.chance(1, 2);
                    let to = if assign { *rng.pick(&same) } else if !empty.is_empty() { *rng.pick(&empty) } else { continue };
                    let before_to = ep.slots[to].clone();
                    let live_before = ledger::live_count();
                    let out = match ep.exec(Op::ClonePanic { from, to, k, assign }, report) {
                        Some(o) => o,
                        None => break,
                    };
                    ep.n_clone_panic += 1;
                    report.count("clone_panics_injected", 1);
                    if out.panicked.is_none() {
                        ep.finding(report, "C16", "injected-clone-panic-swallowed", format!("countdown {} of {} clone points", k, clone_points));
                    }
                    if !assign {
                        // nothing may remain of the partial clone
                        let live_after = ledger::live_count();
                        if live_after != live_before {
                            ep.finding(
                                report,
                                "C16",
                                "partial-clone-leaked",
                                format!("{} live values before the panicking clone, {} after", live_before, live_after),
                            );
                            ep.finding(report, "C06", "partial-clone-leaked", format!("{} -> {}", live_before, live_after));
                        }
                    } else if let Some(bt) = before_to {
                        // each field of the target holds either its old value or the source's
                        // a may-stay-unwritten field that the source never wrote may have been
                        // copied over the target's (uninitialised bytes): it is not read any more
                        let mut mask = ep.written_mask(to);
                        for (kf, f) in src.fields.iter().enumerate() {
                            if *f == FState::Unwritten {
                                mask &= !((1 as crate::Mask) << kf);
                            }
                        }
                        let out = match ep.exec(Op::ReadAll { slot: to, mask }, report) {
                            Some(o) => o,
                            None => break,
                        };
                        ep.ops.pop();
                        let mut fields = bt.fields.clone();
                        for kf in 0..fields.len() {
                            if src.fields[kf] == FState::Unwritten {
                                fields[kf] = FState::Unwritten;
                                continue;
                            }
                            let o = &out.obs[kf];
                            if o.skipped {
                                continue;
                            }
                            let old_id = match &bt.fields[kf] { FState::Val { id, .. } => Some(*id), _ => None };
                            let new_id = match &src.fields[kf] { FState::Val { id, .. } => Some(*id), _ => None };
                            let norm = vm.fields[kf].norm;
                            if vm.fields[kf].clone_points > 1 {
                                // an aggregate of several instrumented values may legitimately be
                                // half assigned when one of its elements' clone panics
                                continue;
                            }
                            if new_id.map(norm) == Some(o.ident) {
                                fields[kf] = FState::Val { id: new_id.unwrap(), serials: o.serials.clone() };
                            } else if old_id.map(norm) == Some(o.ident) {
                                fields[kf] = FState::Val { id: old_id.unwrap(), serials: o.serials.clone() };
                            } else {
                                ep.finding(report, "C16", "field-neither-old-nor-new-after-panicking-clone_from", format!("field {} reads {:#x}", kf, o.ident));
                            }
                        }
                        ep.slots[to] = Some(SlotModel { variant: bt.variant, fields });
                        // the half-assigned target must still drop cleanly (ledger: exactly once)
                        if ep.exec(Op::Drop { slot: to }, report).is_none() {
                            break;
                        }
                        ep.slots[to] = None;
                    }
                } else if !empty.is_empty() {
                    let to = *rng.pick(&empty);
                    if ep.exec(Op::Clone { from, to }, report).is_none() {
                        break;
                    }
                    covered(report, meta, format!("v{}::clone", src.variant));
                    let fields = src
                        .fields
                        .iter()
                        .map(|f| match f {
                            FState::Val { id, .. } => FState::Val { id: *id, serials: vec![] },
                            FState::Unwritten => FState::Unwritten,
                        })
                        .collect();
                    ep.slots[to] = Some(SlotModel { variant: src.variant, fields });
                    ep.n_clone += 1;
                } else {
                    continue;
                }
                what = "after a clone";
                prop = "C16";
            }
            // ---- serialise / deserialise -------------------------------------------------------
            20 | 21 if meta.has_serde && !args.no_serde => {
                let candidates: Vec<usize> = live.iter().copied().filter(|s| ep.all_written(*s)).collect();
                if candidates.is_empty() || empty.is_empty() {
                    continue;
                }
                let slot = *rng.pick(&candidates);
                let to = *rng.pick(&empty);
                let variant = ep.slots[slot].as_ref().unwrap().variant;
                let ids = ep.ids_of(slot).unwrap();
                let expected = match ep.exec(Op::Expected { variant, ids: ids.clone() }, report) {
                    Some(o) => o,
                    None => break,
                };
                let (etext, ebytes) = (expected.text.clone().unwrap_or_default(), expected.bytes.clone().unwrap_or_default());
                let sj = match ep.exec(Op::SerJson { slot }, report) {
                    Some(o) => o,
                    None => break,
                };
                let sb = match ep.exec(Op::SerBin { slot }, report) {
                    Some(o) => o,
                    None => break,
                };
                covered(report, meta, format!("v{}::serialize", variant));
                ep.n_ser += 1;
                report.count("encodings_compared", 2);
                if sj.text.as_deref() != Some(etext.as_str()) {
                    ep.finding(report, "C15", "json-encoding-differs-from-declaration-order-model", format!("record: {:?} model: {}", sj.text, etext));
                }
                if sb.bytes.as_deref() != Some(&ebytes[..]) {
                    ep.finding(report, "C15", "bincode-encoding-differs-from-declaration-order-model", format!("record: {:?} model: {:?}", sb.bytes, ebytes));
                }
                let n = meta.variants[variant].fields.len();
                // serde_json::Value cannot hold a u128 above u64::MAX: that path is skipped then
                let value_ok = !meta.variants[variant].fields.iter().any(|f| f.ty == "u128");
                // split the JSON array text into its elements
                let elems = split_json_array(&etext);
                let pick = rng.below(8);
                let live_before = ledger::live_count();
                let z0 = ledger::totals();
                let (op, expect_ok) = match pick {
                    0 => (Op::DeJson { slot: to, variant, text: etext.clone(), via_value: false }, true),
                    1 => (Op::DeJson { slot: to, variant, text: etext.clone(), via_value: value_ok }, true),
                    2 => (Op::DeBin { slot: to, variant, bytes: ebytes.clone() }, true),
                    3 if n > 0 => {
                        // too few elements: a k-element prefix
                        let k = rng.below(n);
                        (Op::DeJson { slot: to, variant, text: format!("[{}]", elems[..k].join(",")), via_value: value_ok && rng.chance(1, 2) }, false)
                    }
                    4 if n > 0 => {
                        // element k is not decodable
                        let k = rng.below(n);
                        let mut e = elems.clone();
                        e[k] = "{\"undecodable\":[1,2]}".to_owned();
                        (Op::DeJson { slot: to, variant, text: format!("[{}]", e.join(",")), via_value: value_ok && rng.chance(1, 2) }, false)
                    }
                    5 => {
                        // too many elements
                        let mut e = elems.clone();
                        e.push("7".to_owned());
                        (Op::DeJson { slot: to, variant, text: format!("[{}]", e.join(",")), via_value: value_ok && rng.chance(1, 2) }, false)
                    }
                    6 if !ebytes.is_empty() => {
                        let k = rng.below(ebytes.len());
                        (Op::DeBin { slot: to, variant, bytes: ebytes[..k].to_vec() }, false)
                    }
                    _ => (Op::DeJson { slot: to, variant, text: etext.clone(), via_value: false }, true),
                };
                let out = match ep.exec(op, report) {
                    Some(o) => o,
                    None => break,
                };
                covered(report, meta, format!("v{}::deserialize", variant));
                if expect_ok {
                    if let Some(e) = out.err {
                        ep.finding(report, "C15", "own-encoding-rejected", format!("variant {}: {}", variant, e));
                    } else {
                        ep.slots[to] = Some(SlotModel {
                            variant,
                            fields: ids.iter().map(|id| FState::Val { id: *id, serials: vec![] }).collect(),
                        });
                        report.count("round_trips", 1);
                    }
                } else {
                    ep.n_de_bad += 1;
                    report.count("malformed_inputs", 1);
                    if out.err.is_none() {
                        ep.finding(report, "C15", "malformed-input-accepted", format!("variant {} case {}: {:?}", variant, pick, ep.ops.last()));
                        // the record that was built must not be left behind
                        ep.aborted = true;
                    } else {
                        let live_after = ledger::live_count();
                        let z1 = ledger::totals();
                        if live_after != live_before || (z1.zst_births - z0.zst_births) != (z1.zst_deaths - z0.zst_deaths) {
                            ep.finding(
                                report,
                                "C15",
                                "rejected-input-leaked-decoded-values",
                                format!("{} live values before, {} after; zero-size births {} deaths {}", live_before, live_after, z1.zst_births - z0.zst_births, z1.zst_deaths - z0.zst_deaths),
                            );
                        }
                    }
                }
                what = "after a serialisation round trip";
                prop = "C15";
            }
            // ---- threads: share by reference, send and take back --------------------------------
            23 if args.threads => {
                let candidates: Vec<usize> = live.iter().copied().filter(|s| ep.readable_as_a_whole(*s)).collect();
                if candidates.is_empty() {
                    continue;
                }
                let slot = *rng.pick(&candidates);
                let m = ep.slots[slot].clone().unwrap();
                let mask = ep.written_mask(slot);
                let share = rng.chance(1, 2);
                let op = if share { Op::ThreadShare { slot, mask } } else { Op::ThreadSend { slot, mask } };
                let out = match ep.exec(op, report) {
                    Some(o) => o,
                    None => break,
                };
                ep.n_thread += 1;
                report.count(if share { "records_shared_between_threads" } else { "records_sent_between_threads" }, 1);
                for (t, row) in out.rows.iter().enumerate() {
                    for (k, f) in m.fields.iter().enumerate() {
                        if let (FState::Val { id, .. }, Some(o)) = (f, row.get(k)) {
                            if !o.skipped {
                                let want = (meta.variants[m.variant].fields[k].norm)(*id);
                                report.count("field_values_compared", 1);
                                if o.ident != want || !o.alive {
                                    ep.finding(report, "C14", "field-value-differs-in-another-thread", format!("thread {} field {}: read {:#x}, model {:#x}, alive {}", t, k, o.ident, want, o.alive));
                                }
                            }
                        }
                    }
                }
                if out.rows.is_empty() {
                    ep.finding(report, "C14", "driver-error", "no observation came back from the threads".to_owned());
                }
                what = "after sharing / sending a record between threads";
                prop = "C14";
            }
            // ---- vector of records converted in place -----------------------------------------
            22 if nvariants > 1 => {
                let variant = rng.below(nvariants - 1);
                let len = rng.range(0, 5);
                let sv = &meta.variants[variant];
                let tv = &meta.variants[variant + 1];
                let rows: Vec<Vec<u64>> = (0..len).map(|_| sv.fields.iter().map(|_| ep.fresh()).collect()).collect();
                let plus_rows: Vec<Vec<u64>> = (0..len).map(|_| tv.plus.iter().map(|_| ep.fresh()).collect()).collect();
                let keep = rng.next_u64() & ((1u64 << len) - 1);
                let spare = rng.below(3);
                let out = match ep.exec(Op::VecConvert { variant, rows: rows.clone(), plus_rows: plus_rows.clone(), keep, spare }, report) {
                    Some(o) => o,
                    None => break,
                };
                ep.n_vec += 1;
                report.count("vectors_of_records_converted", 1);
                if !out.same_buffer || !out.same_capacity {
                    ep.finding(report, "C03", "vector-of-records-not-converted-in-place", format!("same buffer {}, same capacity {}", out.same_buffer, out.same_capacity));
                }
                let kept: Vec<usize> = (0..len).filter(|i| keep & (1 << i) != 0).collect();
                if out.rows.len() != kept.len() {
                    ep.finding(report, "C05", "vector-conversion-length", format!("{} outputs for {} kept elements", out.rows.len(), kept.len()));
                } else {
                    for (oi, i) in kept.iter().enumerate() {
                        for (k, fm) in tv.fields.iter().enumerate() {
                            let want_id = if let Some(pi) = tv.plus.iter().position(|p| *p == k) {
                                plus_rows[*i][pi]
                            } else {
                                let sk = sv.fields.iter().position(|f| f.datum_id == fm.datum_id).unwrap_or(0);
                                rows[*i][sk]
                            };
                            let o = &out.rows[oi][k];
                            report.count("field_values_compared", 1);
                            if o.ident != (fm.norm)(want_id) || !o.alive {
                                ep.finding(
                                    report,
                                    "C05",
                                    "field-value-differs-from-model",
                                    format!("vector element {} (output {}) field `{}`: read {:#x}, model {:#x}, alive {}", i, oi, fm.name, o.ident, (fm.norm)(want_id), o.alive),
                                );
                            }
                        }
                    }
                }
                what = "after converting a vector of records in place";
                prop = "C05";
            }
            _ => continue,
        }
        if ep.aborted {
            break;
        }
        if args.readback_every <= 1 || step % args.readback_every == 0 {
            ep.readback(prop, what, report);
        }
    }
    // ---- end of life: write what must be written, drop everything ---------------------------
    if !ep.aborted {
        ep.readback("C04", "at the end of the episode", report);
    }
    if !ep.aborted {
        for slot in 0..NSLOTS {
            if ep.slots[slot].is_none() {
                continue;
            }
            for k in ep.pending(slot) {
                let id = ep.fresh();
                if ep.exec(Op::Write { slot, field: k, id }, report).is_none() {
                    break;
                }
                ep.slots[slot].as_mut().unwrap().fields[k] = FState::Val { id, serials: vec![] };
            }
            if ep.aborted {
                break;
            }
            let variant = ep.slots[slot].as_ref().unwrap().variant;
            let serials = ep.serials_of(slot);
            if ep.exec(Op::Drop { slot }, report).is_none() {
                break;
            }
            covered(report, meta, format!("v{}::drop", variant));
            ep.expect_dropped(&serials, &format!("record of variant {} dropped at the end", variant), "C06", report);
            ep.slots[slot] = None;
        }
    }
    let events = ledger::close_epoch();
    if !ep.aborted {
        for e in events {
            let (kind, s) = match e {
                LedgerEvent::Leak(s) => ("leak", s),
                LedgerEvent::DoubleDrop(s) => ("double-drop", s),
                LedgerEvent::DropUnknown(s) => ("drop-of-unknown-value", s),
                LedgerEvent::DuplicateBirth(s) => ("duplicate-birth", s),
            };
            ep.finding(report, "C06", kind, format!("ledger serial {:#x} at the end of the episode", s));
        }
        let z1 = ledger::totals();
        report.count("ledger.births", z1.births - zst0.births);
        report.count("ledger.deaths", z1.deaths - zst0.deaths);
        report.count("ledger.zero_size_births", z1.zst_births - zst0.zst_births);
        if ep.n_drop_panic == 0 && z1.zst_births - zst0.zst_births != z1.zst_deaths - zst0.zst_deaths {
            let detail = format!(
                "{} zero-size values with a destructor were made, {} were destroyed",
                z1.zst_births - zst0.zst_births,
                z1.zst_deaths - zst0.zst_deaths
            );
            ep.finding(report, "C06", "zero-size-value-drop-count", detail.clone());
            // the counters cannot tell which operation miscounted: an episode that cloned or
            // deserialised records is a witness for those properties too
            if ep.n_clone + ep.n_clone_panic > 0 {
                ep.finding(report, "C16", "zero-size-value-drop-count", detail.clone());
            }
            if ep.n_ser > 0 {
                ep.finding(report, "C15", "zero-size-value-drop-count", detail);
            }
        }
        ep.drain_events("C06", report);
    } else {
        let _ = hook_events();
        report.count("episodes_aborted", 1);
    }
    for (v, k) in std::mem::take(&mut ep.getters_seen) {
        let name = format!("{}::v{}::{}", meta.module, v, meta.variants[v].fields[k].name);
        if !report.functions_covered.contains(&name) {
            report.functions_covered.insert(name);
        }
    }
    // non-triviality
    // (formatting is very slow under Miri: episodes are told apart by their coordinates there)
    let ops_text: Vec<String> = if cfg!(miri) {
        vec![format!("seed {} episode {} ({} operations)", args.seed, episode, ep.ops.len())]
    } else {
        ep.ops.iter().map(|o| format!("{:?}", o)).collect()
    };
    let digest = vtypes::fnv64(format!("{}|{}|{}", meta.module, meta.cap, ops_text.join(";")).as_bytes());
    let mut mark = |p: &'static str, yes: bool| {
        if yes {
            report.distinct.entry(p).or_default().insert(digest);
        }
    };
    mark("C04", ep.n_new >= 1 && ep.n_write >= 1);
    mark("C05", ep.n_convert >= 1 || ep.n_vec >= 1);
    mark("C06", ep.n_droppable_stored >= 1 && (ep.n_convert + ep.n_unpack + ep.n_drop >= 1));
    mark("C07", ep.ops.len() >= 2);
    mark("C02", ep.n_new >= 1 && ep.n_move >= 1);
    mark("C03", ep.n_vec >= 1);
    mark("C15", ep.n_ser >= 1);
    mark("C16", ep.n_clone + ep.n_clone_panic >= 1);
    mark("C14", ep.n_thread >= 1);
    report.count("episodes.with_conversion", (ep.n_convert > 0) as u64);
    report.count("episodes.with_byte_reuse_conversion", (ep.n_convert_reuse > 0) as u64);
    report.count("episodes.with_clone_panic", (ep.n_clone_panic > 0) as u64);
    report.count("episodes.with_malformed_input", (ep.n_de_bad > 0) as u64);
    if report.samples.len() < 4 && ep.ops.len() >= 4 && ep.ops.len() <= 14 && episode % 37 == 5 {
        report.samples.push(format!("{} cap {} episode {}: {}", meta.module, meta.cap, episode, ops_text.join("; ")));
    }
}

/// Splits the text of a JSON array into the texts of its elements (top level only).
pub fn split_json_array(text: &str) -> Vec<String> {
    let t = text.trim();
    if t.len() < 2 {
        return Vec::new();
    }
    let inner = &t[1..t.len() - 1];
    let mut out = Vec::new();
    let mut depth = 0i32;
    let mut in_str = false;
    let mut esc = false;
    let mut cur = String::new();
    for c in inner.chars() {
        if in_str {
            cur.push(c);
            if esc {
                esc = false;
            } else if c == '\\' {
                esc = true;
            } else if c == '"' {
                in_str = false;
            }
            continue;
        }
        match c {
            '"' => {
                in_str = true;
                cur.push(c);
            }
            '[' | '{' => {
                depth += 1;
                cur.push(c);
            }
            ']' | '}' => {
                depth -= 1;
                cur.push(c);
            }
            ',' if depth == 0 => {
                out.push(cur.trim().to_owned());
                cur = String::new();
            }
            c => cur.push(c),
        }
    }
    if !cur.trim().is_empty() {
        out.push(cur.trim().to_owned());
    }
    out
}

pub fn _unused(_: &mut Rng) {}
