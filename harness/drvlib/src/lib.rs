pub fn placeholder() {}
