//! Engine B support: the operation vocabulary that generated drivers implement, observation
//! helpers, and the seeded episode interpreter with its reference model (`field -> value id`).
//!
//! The interpreter is not generic: one compiled module runs thousands of distinct operation
//! sequences; all randomness is drawn at run time from the seed.

use std::collections::{BTreeMap, BTreeSet, HashSet};

use vtypes::ledger::{self, LedgerEvent, State as LState};
use vtypes::{Probe, Rng};

pub mod interp;

/// Static description of one field of a variant (written by the emitter from the definition).
#[derive(Clone)]
pub struct FieldMeta {
    pub name: &'static str,
    /// type expression as the driver writes it
    pub ty: &'static str,
    pub datum_id: usize,
    /// from the definition
    pub offset: usize,
    pub size: usize,
    pub align: usize,
    pub uninit: bool,
    /// measured where the driver is compiled
    pub real_size: usize,
    pub real_align: usize,
    pub droppable: bool,
    /// `MaybeUninit<_>`: may stay unwritten for ever
    pub may_stay_unwritten: bool,
    /// zero-size type with a counted destructor
    pub zst_drop: bool,
    /// number of ledger serials a value of this type carries
    pub tracked: usize,
    /// how many times cloning a value consults the clone-panic countdown
    pub clone_points: usize,
    pub norm: fn(u64) -> u64,
}

#[derive(Clone)]
pub struct VariantMeta {
    pub fields: Vec<FieldMeta>,
    /// indices (in the previous variant's fields) of the data removed by the conversion
    pub minus: Vec<usize>,
    /// indices (in this variant's fields) of the data added by the conversion
    pub plus: Vec<usize>,
    /// number of (removed, added) pairs whose byte ranges intersect
    pub byte_reuse_pairs: usize,
    pub size_of: usize,
    pub align_of: usize,
}

#[derive(Clone)]
pub struct Meta {
    pub module: &'static str,
    pub history: &'static str,
    pub cap: usize,
    pub max_size: usize,
    pub variants: Vec<VariantMeta>,
    pub has_clone: bool,
    pub has_serde: bool,
    /// the returning conversion forms are driven (false when the generated interface of the
    /// module does not offer the removed data the definition says it returns)
    pub has_returning_forms: bool,
    /// size / align of `RecordUninitialized<CAP>`
    pub uninit_size_of: usize,
    pub uninit_align_of: usize,
}

/// What is observed of one field value.
#[derive(Clone, Debug, Default, PartialEq, Eq)]
pub struct FieldObs {
    pub ident: u64,
    pub addr: usize,
    pub serials: Vec<u64>,
    /// all serials were alive in the ledger when the value was observed
    pub alive: bool,
    /// the field was not observed (unwritten may-be-uninit field)
    pub skipped: bool,
}

pub fn obs<T: Probe>(t: &T) -> FieldObs {
    let serials = t.serials();
    let alive = serials.iter().all(|s| ledger::state(*s) == Some(LState::Live));
    FieldObs {
        ident: t.ident(),
        addr: t as *const T as usize,
        serials,
        alive,
        skipped: false,
    }
}

pub fn skipped() -> FieldObs {
    FieldObs {
        skipped: true,
        ..Default::default()
    }
}

/// One bit per field of a variant (up to 128 fields).
pub type Mask = u128;

pub const NSLOTS: usize = 11;
/// Placement of each slot.
pub const SLOT_KIND: [&str; NSLOTS] = [
    "stack", "stack", "box", "box", "vec", "vec", "vec", "repr_c_slot", "repr_c_slot", "minimally_aligned_heap", "minimally_aligned_heap",
];

/// A heap placement that is aligned for `T` and for nothing more: the address is an odd multiple
/// of `align_of::<T>()`. A record type whose alignment is smaller than one of its fields'
/// alignment shows there as a misaligned field reference.
pub struct MinAligned<T> {
    base: *mut u8,
    layout: std::alloc::Layout,
    ptr: *mut T,
}

impl<T> MinAligned<T> {
    pub fn new(value: T) -> Self {
        let align = std::mem::align_of::<T>();
        let size = std::mem::size_of::<T>();
        let big = (align * 2).max(64);
        let layout = std::alloc::Layout::from_size_align(size + 2 * big, big).unwrap();
        let base = unsafe { std::alloc::alloc(layout) };
        assert!(!base.is_null());
        // base is a multiple of 2 * align: base + align is an odd multiple of align
        let ptr = unsafe { base.add(align) } as *mut T;
        unsafe { std::ptr::write(ptr, value) };
        MinAligned { base, layout, ptr }
    }
}

impl<T> std::ops::Deref for MinAligned<T> {
    type Target = T;
    fn deref(&self) -> &T {
        unsafe { &*self.ptr }
    }
}

impl<T> std::ops::DerefMut for MinAligned<T> {
    fn deref_mut(&mut self) -> &mut T {
        unsafe { &mut *self.ptr }
    }
}

impl<T> Drop for MinAligned<T> {
    fn drop(&mut self) {
        unsafe {
            std::ptr::drop_in_place(self.ptr);
            std::alloc::dealloc(self.base, self.layout);
        }
    }
}

#[derive(Clone, Debug)]
pub enum Op {
    /// `CappedRecordN::new(UnpackedRecordN { .. })`
    New { slot: usize, variant: usize, ids: Vec<u64> },
    /// `CappedRecordN::new_uninit(UnpackedUninitRecordN { mandatory fields })`
    NewUninit { slot: usize, variant: usize, ids: Vec<u64> },
    /// `CappedRecordN::from(UnpackedRecordN { .. })`
    FromUnpacked { slot: usize, variant: usize, ids: Vec<u64> },
    /// `CappedRecordN::from(UnpackedUninitRecordN { .. })`
    FromUnpackedUninit { slot: usize, variant: usize, ids: Vec<u64> },
    /// reads the fields in `mask` through the shared accessors
    ReadAll { slot: usize, mask: Mask },
    /// `*record.field_mut() = make(id)`
    Write { slot: usize, field: usize, id: u64 },
    /// converts the record in `slot` to the next variant. forms: 0 = full additions, 1 = only
    /// mandatory additions, 2 / 3 = the same, returning the removed data. `ids` are indexed by
    /// position in the target variant's `plus` list. `mask` selects which returned removed
    /// fields are observed (by position in `minus`).
    Convert { slot: usize, form: u8, ids: Vec<u64>, mask: Mask },
    /// a non-returning conversion (form 0 or 1) during which the k-th destructor of an
    /// instrumented value panics
    ConvertDropPanic { slot: usize, form: u8, ids: Vec<u64>, k: usize },
    Unpack { slot: usize, mask: Mask },
    Drop { slot: usize },
    Move { from: usize, to: usize },
    Clone { from: usize, to: usize },
    CloneFrom { from: usize, to: usize },
    /// clone with the injected panic armed at the k-th clone point; `clone_from` when `assign`
    ClonePanic { from: usize, to: usize, k: usize, assign: bool },
    SerJson { slot: usize },
    SerBin { slot: usize },
    /// expected encodings computed from fresh values made from `ids`
    Expected { variant: usize, ids: Vec<u64> },
    DeJson { slot: usize, variant: usize, text: String, via_value: bool },
    DeBin { slot: usize, variant: usize, bytes: Vec<u8> },
    /// three threads read the fields in `mask` through a shared reference at the same time
    ThreadShare { slot: usize, mask: Mask },
    /// the record is moved to another thread, read there, and moved back
    ThreadSend { slot: usize, mask: Mask },
    /// builds a `Vec<CappedRecordN>` from `ids` (one row per element), converts it in place to
    /// the next variant (form 0), abandoning the elements whose bit is clear in `keep`
    VecConvert { variant: usize, rows: Vec<Vec<u64>>, plus_rows: Vec<Vec<u64>>, keep: u64, spare: usize },
}

#[derive(Clone, Debug, Default)]
pub struct OpOut {
    pub obs: Vec<FieldObs>,
    pub rows: Vec<Vec<FieldObs>>,
    pub text: Option<String>,
    pub bytes: Option<Vec<u8>>,
    pub err: Option<String>,
    pub panicked: Option<String>,
    pub same_buffer: bool,
    pub same_capacity: bool,
    pub record_addr: usize,
}

/// Implemented by the generated `State<CAP>` of every module.
pub trait Drv {
    fn meta(&self) -> Meta;
    fn op(&mut self, op: &Op) -> OpOut;
    /// address of the record stored in `slot` (0 when empty)
    fn record_addr(&self, slot: usize) -> usize;
    /// variant stored in `slot`
    fn variant_in(&self, slot: usize) -> Option<usize>;
}

pub fn panic_text(p: Box<dyn std::any::Any + Send>) -> String {
    if let Some(s) = p.downcast_ref::<String>() {
        s.clone()
    } else if let Some(s) = p.downcast_ref::<&'static str>() {
        (*s).to_owned()
    } else if p.downcast_ref::<vtypes::InjectedClonePanic>().is_some() {
        "InjectedClonePanic".to_owned()
    } else if p.downcast_ref::<vtypes::InjectedDropPanic>().is_some() {
        "InjectedDropPanic".to_owned()
    } else {
        "<non-string panic payload>".to_owned()
    }
}

/// Findings of a run, keyed for the runner.
#[derive(Clone, Debug)]
pub struct Finding {
    pub property: &'static str,
    pub kind: String,
    pub detail: String,
    pub module: String,
    pub cap: usize,
    pub episode: u64,
    pub ops: Vec<String>,
}

#[derive(Default)]
pub struct Report {
    pub findings: Vec<Finding>,
    pub findings_total: u64,
    pub counters: BTreeMap<&'static str, u64>,
    pub distinct: BTreeMap<&'static str, HashSet<u64>>,
    pub samples: Vec<String>,
    pub functions_covered: BTreeSet<String>,
    /// number of generated functions per module
    pub functions_total: BTreeMap<String, u64>,
}

impl Report {
    pub fn count(&mut self, k: &'static str, n: u64) {
        *self.counters.entry(k).or_default() += n;
    }
    pub fn finding(&mut self, f: Finding) {
        self.findings_total += 1;
        // keep a bounded number of witnesses *per property and kind*, so that a flood of one kind
        // cannot push out the only witness of another
        let same = self
            .findings
            .iter()
            .filter(|g| g.property == f.property && g.kind == f.kind)
            .count();
        let of_property = self.findings.iter().filter(|g| g.property == f.property).count();
        if same < 4 && of_property < 24 {
            self.findings.push(f);
        }
    }
}

pub fn json_escape(s: &str) -> String {
    let mut o = String::with_capacity(s.len() + 2);
    for c in s.chars() {
        match c {
            '"' => o.push_str("\\\""),
            '\\' => o.push_str("\\\\"),
            '\n' => o.push_str("\\n"),
            '\r' => o.push_str("\\r"),
            '\t' => o.push_str("\\t"),
            c if (c as u32) < 0x20 => o.push_str(&format!("\\u{:04x}", c as u32)),
            c => o.push(c),
        }
    }
    o
}

impl Report {
    /// JSON text of the report (written by hand: this crate runs under Miri too and keeps its
    /// dependencies minimal).
    pub fn to_json(&self, extra: &[(&str, String)]) -> String {
        let mut s = String::from("{");
        for (k, v) in extra {
            s.push_str(&format!("\"{}\":{},", k, v));
        }
        s.push_str("\"counters\":{");
        let mut first = true;
        for (k, v) in &self.counters {
            if !first {
                s.push(',');
            }
            first = false;
            s.push_str(&format!("\"{}\":{}", json_escape(k), v));
        }
        s.push_str("},\"distinct\":{");
        let mut first = true;
        for (k, v) in &self.distinct {
            if !first {
                s.push(',');
            }
            first = false;
            s.push_str(&format!("\"{}\":{}", k, v.len()));
        }
        s.push_str("},\"samples\":[");
        for (i, x) in self.samples.iter().enumerate() {
            if i > 0 {
                s.push(',');
            }
            s.push_str(&format!("\"{}\"", json_escape(x)));
        }
        s.push_str("],\"functions_covered\":[");
        for (i, x) in self.functions_covered.iter().enumerate() {
            if i > 0 {
                s.push(',');
            }
            s.push_str(&format!("\"{}\"", json_escape(x)));
        }
        s.push_str("],\"functions_total\":{");
        for (i, (k, v)) in self.functions_total.iter().enumerate() {
            if i > 0 {
                s.push(',');
            }
            s.push_str(&format!("\"{}\":{}", json_escape(k), v));
        }
        s.push_str(&format!("}},\"findings_total\":{},\"findings\":[", self.findings_total));
        for (i, f) in self.findings.iter().enumerate() {
            if i > 0 {
                s.push(',');
            }
            s.push_str(&format!(
                "{{\"property\":\"{}\",\"kind\":\"{}\",\"detail\":\"{}\",\"module\":\"{}\",\"cap\":{},\"episode\":{},\"ops\":[{}]}}",
                f.property,
                json_escape(&f.kind),
                json_escape(&f.detail),
                json_escape(&f.module),
                f.cap,
                f.episode,
                f.ops
                    .iter()
                    .map(|o| format!("\"{}\"", json_escape(o)))
                    .collect::<Vec<_>>()
                    .join(",")
            ));
        }
        s.push_str("]}");
        s
    }
}

/// Drains the ledger events.
pub fn ledger_events() -> Vec<LedgerEvent> {
    ledger::take_events()
}

#[cfg(feature = "hooks")]
pub fn hook_events() -> Vec<String> {
    truc_runtime::data::verif::take_events()
        .into_iter()
        .map(|e| {
            format!(
                "{:?} access={:?} offset={} size={} align={} cap={} type={}",
                e.kind, e.access, e.offset, e.size, e.align, e.cap, e.type_name
            )
        })
        .collect()
}

#[cfg(not(feature = "hooks"))]
pub fn hook_events() -> Vec<String> {
    Vec::new()
}

#[cfg(feature = "hooks")]
pub fn hook_counters() -> Vec<(&'static str, u64)> {
    let c = truc_runtime::data::verif::counters();
    vec![
        ("hook.reads", c.reads),
        ("hook.writes", c.writes),
        ("hook.gets", c.gets),
        ("hook.get_muts", c.get_muts),
        ("hook.buffer_drops", c.buffer_drops),
        ("hook.droppable_reads", c.droppable_reads),
        ("hook.droppable_writes", c.droppable_writes),
        ("hook.misaligned_store_destinations", c.misaligned_store_destinations),
        ("hook.bytes_checked", c.bytes_checked),
        ("hook.events", c.events),
    ]
}

#[cfg(not(feature = "hooks"))]
pub fn hook_counters() -> Vec<(&'static str, u64)> {
    Vec::new()
}

pub const HOOKS_ON: bool = cfg!(feature = "hooks");

/// Shared entry point of the generated drivers' `main`.
pub struct RunArgs {
    pub seed: u64,
    pub episodes: u64,
    pub max_ops: usize,
    pub shard: u64,
    pub nshards: u64,
    pub modules: Option<Vec<String>>,
    /// modules left out of this run (see the crash triage of the runner)
    pub skip_modules: Vec<String>,
    pub readback_every: usize,
    pub replay: Option<(String, usize, u64)>,
    /// skip serialisation operations (their dependencies trip Miri's symbolic alignment check)
    pub no_serde: bool,
    /// share and send records between threads (drivers built with the `threads` feature)
    pub threads: bool,
    /// skip the deterministic sweeps
    pub no_sweeps: bool,
    /// inject destructor panics into non-returning conversions (leaks what Rust itself leaks
    /// then: not for runs under a leak checker)
    pub drop_panics: bool,
    /// only episodes are run, no static layout checks output
    pub only_caps: Option<Vec<usize>>,
}

impl RunArgs {
    pub fn parse() -> RunArgs {
        let args: Vec<String> = std::env::args().collect();
        let get = |k: &str| -> Option<String> {
            args.iter()
                .position(|a| a == k)
                .and_then(|i| args.get(i + 1))
                .cloned()
        };
        let num = |k: &str, d: u64| get(k).and_then(|v| v.parse().ok()).unwrap_or(d);
        RunArgs {
            seed: num("--seed", 1),
            episodes: num("--episodes", 200),
            max_ops: num("--max-ops", 40) as usize,
            shard: num("--shard", 0),
            nshards: num("--nshards", 1).max(1),
            modules: get("--modules").map(|m| m.split(',').map(|s| s.to_owned()).collect()),
            skip_modules: get("--skip-modules").map(|m| m.split(',').map(|s| s.to_owned()).collect()).unwrap_or_default(),
            readback_every: num("--readback-every", 1) as usize,
            no_serde: args.iter().any(|a| a == "--no-serde"),
            threads: args.iter().any(|a| a == "--threads"),
            no_sweeps: args.iter().any(|a| a == "--no-sweeps"),
            drop_panics: args.iter().any(|a| a == "--drop-panics"),
            only_caps: get("--caps").map(|c| c.split(',').filter_map(|x| x.parse().ok()).collect()),
            replay: get("--replay").map(|r| {
                // module:cap:episode
                let p: Vec<&str> = r.split(':').collect();
                (
                    p[0].to_owned(),
                    p[1].parse().unwrap_or(0),
                    p[2].parse().unwrap_or(0),
                )
            }),
        }
    }
}

pub fn rng_for(seed: u64, module: &str, cap: usize, episode: u64) -> Rng {
    Rng::stream(
        seed ^ vtypes::fnv64(module.as_bytes()) ^ (cap as u64).wrapping_mul(0x9E37_79B9),
        episode,
    )
}
