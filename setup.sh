#!/bin/bash
# Builds the verification framework from files on disk only (offline).
set -e
cd "$(dirname "$0")"
export CARGO_NET_OFFLINE=true
mkdir -p work evidence replays
(cd harness && cargo build --quiet 2>&1 | tail -5; cargo build --quiet --profile fastdebug 2>&1 | tail -5; cargo build --quiet --release 2>&1 | tail -5)
echo "setup done"
