#!/bin/bash
# Builds the verification framework from files on disk only (offline). Idempotent.
set -e
cd "$(dirname "$0")"
export CARGO_NET_OFFLINE=true
mkdir -p work evidence replays
python3 runner/prebuild.py
echo "setup done"
