#!/usr/bin/env python3
"""Runs quick checks against every *benign* change under /verif/benign/<id>/ (behaviour-preserving
refactorings written by independent sub-agents): every check must stay silent (exit 0).
Meant to run inside tools/seeded_sandbox.sh's namespace. usage: run_benign.py <results.json> [ids...]"""
import json, os, subprocess, sys, time

VERIF = "/verif"
REPO = "/repo"
AREA_CHECKS = {
    "R1": ["C01", "C02", "C03", "C05", "C12", "C13", "C18", "C19", "C20"],
    "R2": ["C01", "C12", "C13", "C17", "C18", "C19", "C20", "C11"],
    "R3": ["C04", "C05", "C06", "C07", "C08", "C09", "C10", "C14", "C15", "C16"],
    "R4": ["C02", "C03", "C04", "C05", "C06", "C07", "C11", "C13", "C14", "C15", "C16", "C19"],
    # R5: configuration-sensitive and state-carrying spots all over the code: every check
    "R5": ["C%02d" % i for i in range(1, 21)],
}

def sh(cmd, cwd=None, timeout=3600):
    p = subprocess.run(cmd, cwd=cwd, stdout=subprocess.PIPE, stderr=subprocess.STDOUT, text=True, timeout=timeout)
    return p.returncode, p.stdout

def main():
    out = sys.argv[1]
    ids = sys.argv[2:] or sorted(os.listdir(os.path.join(VERIF, "benign")))
    results = json.load(open(out)) if os.path.exists(out) else {}
    for name in ids:
        patch = os.path.join(VERIF, "benign", name, "patch.diff")
        if not os.path.exists(patch):
            continue
        sh(["git", "reset", "--hard", "-q"], cwd=REPO); sh(["git", "clean", "-fdq"], cwd=REPO)
        rc, o = sh(["git", "apply", patch], cwd=REPO)
        if rc != 0:
            results[name] = {"status": "patch does not apply", "detail": o[-300:]}
            json.dump(results, open(out, "w"), indent=1)
            continue
        entry = {"status": "ran", "checks": {}}
        for p in AREA_CHECKS[name.split("-")[0]]:
            t0 = time.time()
            try:
                rc, o = sh(["./check", p, "quick"], cwd=VERIF, timeout=3000)
            except subprocess.TimeoutExpired:
                rc, o = None, "timeout"
            lines = [l for l in o.splitlines() if l.startswith("VIOLATION") or l.startswith("  kind=") or l.startswith("INCONCLUSIVE")]
            entry["checks"][p] = {"exit": rc, "secs": round(time.time() - t0), "lines": [l[:500] for l in lines[:6]]}
            print(name, p, "exit", rc, round(time.time() - t0), "s", flush=True)
        sh(["git", "reset", "--hard", "-q"], cwd=REPO); sh(["git", "clean", "-fdq"], cwd=REPO)
        results[name] = entry
        json.dump(results, open(out, "w"), indent=1)
    print("benign run done", flush=True)

if __name__ == "__main__":
    main()
