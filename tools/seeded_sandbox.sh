#!/bin/bash
# Runs tools/run_seeded.py against scratch copies of /repo and /verif in a private mount
# namespace, so that nothing under the real /repo or /verif is touched while it works.
# usage: seeded_sandbox.sh <results.json> [ids...]
# VERIF_SRC=<dir> evaluates another checkout of /verif (e.g. an earlier commit); SANDBOX=<dir>
# picks the scratch directory.
set -e
S=${SANDBOX:-/tmp/seedrun}
V=${VERIF_SRC:-/verif}
rm -rf $S; mkdir -p $S/work
git -C /repo worktree prune
rsync -a --exclude target /repo/ $S/repo/
git -C /verif worktree remove --force $S/verif 2>/dev/null || true
rsync -a --exclude work --exclude replays $V/ $S/verif/
mkdir -p $S/verif/work $S/verif/replays
RES=$1; shift
unshare -m bash -c "mount --bind $S/repo /repo && mount --bind $S/verif /verif && cd /verif && python3 tools/run_seeded.py $RES $*"
rm -rf $S
