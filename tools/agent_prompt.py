#!/usr/bin/env python3
"""Prints the brief given to an independent sub-agent that writes property-breaking changes.
usage: agent_prompt.py <Cxx> [round-constraints-file]
The sub-agent gets the property text only (title, statement, quantifier, anchor files) and a
scratch worktree /tmp/mut-<id>; nothing from /verif."""
import json, sys
pid = sys.argv[1]
p = [json.loads(l) for l in open('/verif/properties.jsonl') if json.loads(l)['id'] == pid][0]
prop = "Title: %s\n\nStatement: %s\n\nQuantified over: %s\n\nCode it is anchored in: %s\n" % (
    p['title'], p['statement'], p['quantifier']['text'], ', '.join(p['anchors']['files']))
print(f"""You are helping to evaluate a verification effort by playing the adversary ("mutation author") for the Rust project arnodb/truc: a build-time code generator for fixed-size, evolving record types with packed byte layouts (crate `truc`), plus a small unsafe runtime (`truc_runtime`) with an in-place vector conversion.

You have your own scratch git worktree of the project at /tmp/mut-{pid} (a detached checkout; work ONLY there and in /tmp/mut-{pid}-out; never touch /repo or /verif and do not read anything under /verif). There is no network: always pass --offline to cargo (CARGO_NET_OFFLINE=true). Use `export CARGO_TARGET_DIR=/tmp/mut-{pid}/target` so that you do not share build output with anyone.

Here is one semantic property the project is supposed to satisfy:

{prop}

YOUR TASK: produce TWO independent source changes (call them `a` and `b`; different sites or different mechanisms) to the project's own source (under truc/src or truc_runtime/src) such that each change:
  1. BREAKS the property above (makes it false for some input / history / sequence), and
  2. still COMPILES, and the existing test suite still PASSES with it: `cargo test --workspace --no-fail-fast --offline` run from the worktree root (66 tests including doc tests; a couple of tests use random seeds, so run the suite 3 times to make sure it stays green), and
  3. looks like a realistic mistake or plausible refactoring/optimisation (not sabotage keyed on a magic constant or name), and
  4. needs something SPECIFIC to manifest: a multi-step sequence of operations, a third or later variant, an unusual input shape, a failure at a particular position, or two cooperating sites that each look fine alone. It must NOT be something that ordinary, simple use exposes at once (e.g. not "every record is broken").

For each change also write a DEMONSTRATION: a small self-contained Rust program or test (e.g. an extra example crate directory, an integration test file, or a `#[test]` you add in a NEW file — it must not modify existing test code) together with a shell script `demo.sh <worktree-path>` that builds and runs it against the given worktree and exits 0 when the property holds and non-zero when it is violated. The demo must FAIL with your change applied and PASS on the unchanged checkout. If the demonstration needs generated code to be compiled and run, note that examples/machin shows how a build.rs generates code and how it is included; crates available offline include serde, serde_json, bincode, static_assertions, rand 0.8, rand_chacha 0.3. The demo files must live outside existing source files so that the patch and the demo are separable.

DELIVERABLES, for each of a and b, in /tmp/mut-{pid}-out/a/ and /tmp/mut-{pid}-out/b/:
  - patch.diff : the source change ONLY (output of `git diff` restricted to truc/src and truc_runtime/src; must apply with `git apply` on a clean checkout of the same commit). Do not include the demo in it.
  - demo/ : the demonstration files plus demo.sh (demo.sh receives the absolute path of a checkout as $1, copies/links what it needs into it or builds against it by path, and uses its own CARGO_TARGET_DIR under /tmp/mut-{pid}/target-demo).
  - notes.md : which property it breaks and how; what exactly is needed for it to manifest; why the existing tests do not see it; the exact commands you ran and their results (suite green 3x with the change; demo fails with change; demo passes without).
When you are done, leave the worktree clean (`git checkout -- . && git clean -fdq -e target -e target-demo` is fine) — the deliverables live in the -out directory. Verify before finishing that `git apply --check` of each patch.diff succeeds on the clean worktree.

Report back briefly: for each of a and b, one paragraph on the change, what triggers it, and confirmation of the three checks (suite green, demo fails with, demo passes without). If you could only produce one valid change, say so rather than submitting an invalid one.""")
if len(sys.argv) > 2:
    print()
    print(open(sys.argv[2]).read())
