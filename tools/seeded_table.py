#!/usr/bin/env python3
"""Builds the seeded-change detection table (markdown) from one or more result files of
tools/run_seeded.py (later files override earlier ones), updates seeded/<id>/meta.json, and
replaces the block between the SEEDED-TABLE markers in DESIGN.md.
usage: seeded_table.py results1.json [results2.json ...]"""
import json, os, re, sys

VERIF = os.path.dirname(os.path.dirname(os.path.abspath(__file__)))
REVERTS = {
    "revert-D1D2": "reverse of fix 6cdfb86 (zero-size data ignored by `simple`'s gap computation)",
    "revert-D3": "reverse of fix 5bf9678 (`max_size` folds over orphan data)",
    "revert-D4": "reverse of fix 9dddb81 (store pointer derived from `as_ptr()`)",
    "revert-D5": "reverse of fix d540cc4 (`ptr::write` into the align-1 local buffer)",
    "revert-D6": "reverse of fix a15f544 (payload replaced, vector buffer leaked)",
    "revert-D8": "reverse of fix 269a69b (no `align_of` assertion)",
}


def title(name):
    if name in REVERTS:
        return REVERTS[name]
    p = os.path.join(VERIF, "seeded", name, "notes.md")
    if os.path.exists(p):
        for line in open(p):
            line = line.strip()
            if line.startswith("#"):
                t = re.sub(r"^#+\s*", "", line)
                t = re.split(r"\s[—–-]{1,2}\s", t, maxsplit=1)
                t = t[1] if len(t) > 1 else t[0]
                return t.strip().rstrip(".")
    return ""


def main():
    results = {}
    for f in sys.argv[1:]:
        results.update(json.load(open(f)))
    rows = []
    caught = missed = 0
    for name in sorted(os.listdir(os.path.join(VERIF, "seeded"))):
        d = os.path.join(VERIF, "seeded", name)
        if not os.path.isdir(d):
            continue
        r = results.get(name)
        verdicts = []
        if r is None:
            verdicts.append("not run")
        elif r["status"] != "ran":
            verdicts.append(r["status"])
        else:
            for p, c in sorted(r["checks"].items()):
                kinds = []
                for l in c.get("lines", []):
                    m = re.match(r"\s+kind=(\S+)", l)
                    if m and m.group(1) not in kinds:
                        kinds.append(m.group(1))
                if c["exit"] == 1:
                    verdicts.append("**%s** reports it (%s; %ss)" % (p, ", ".join(kinds[:2]) or "violation", c.get("secs")))
                    caught += 1
                elif c["exit"] == 2:
                    verdicts.append("%s inconclusive" % p)
                    missed += 1
                else:
                    verdicts.append("%s silent" % p)
                    missed += 1
        rows.append("| %s | %s | %s |" % (name, title(name).replace("|", "/"), "; ".join(verdicts)))
        mp = os.path.join(d, "meta.json")
        meta = json.load(open(mp)) if os.path.exists(mp) else {"id": name}
        meta["detected_by"] = verdicts
        json.dump(meta, open(mp, "w"), indent=1)
    table = "| seeded change | what it does | quick check of its property |\n|---|---|---|\n" + "\n".join(rows)
    table += "\n\n%d (change, check) pairs run; %d reported, %d not reported.\n" % (caught + missed, caught, missed)
    dp = os.path.join(VERIF, "DESIGN.md")
    s = open(dp).read()
    if "SEEDED-TABLE-PLACEHOLDER" in s:
        s = s.replace("SEEDED-TABLE-PLACEHOLDER", "<!-- SEEDED-TABLE-BEGIN -->\n" + table + "<!-- SEEDED-TABLE-END -->")
    else:
        s = re.sub(r"<!-- SEEDED-TABLE-BEGIN -->.*<!-- SEEDED-TABLE-END -->", lambda m: "<!-- SEEDED-TABLE-BEGIN -->\n" + table + "<!-- SEEDED-TABLE-END -->", s, flags=re.S)
    open(dp, "w").write(s)
    print(table[-300:])


if __name__ == "__main__":
    main()
