#!/usr/bin/env python3
"""Runs the quick checks against every seeded change: apply patch to /repo, run, undo.
Meant to run inside a private mount namespace (tools/seeded_sandbox.sh) so that /repo and
/verif/work are scratch copies. usage: run_seeded.py <results.json> [ids...]"""
import json, os, subprocess, sys, time

VERIF = "/verif"
REPO = "/repo"

def sh(cmd, cwd=None, timeout=3600):
    p = subprocess.run(cmd, cwd=cwd, stdout=subprocess.PIPE, stderr=subprocess.STDOUT, text=True, timeout=timeout)
    return p.returncode, p.stdout

def props_for(name, meta):
    if name.startswith("revert-"):
        return {"revert-D1D2": ["C01", "C13"], "revert-D3": ["C13"], "revert-D4": ["C04", "C07"], "revert-D5": ["C07"],
                "revert-D6": ["C09"], "revert-D8": ["C11"]}[name]
    # a change can be seeded under one property and remove the gate that another property is
    # about (e.g. the compile-time rejection of wrong type information): those checks run too
    return [meta["property"]] + list(meta.get("also_check", []))

def main():
    out = sys.argv[1]
    ids = sys.argv[2:] or sorted(os.listdir(os.path.join(VERIF, "seeded")))
    results = json.load(open(out)) if os.path.exists(out) else {}
    registry = json.load(open(os.path.join(VERIF, "MANIFEST.json")))
    claimed = {c["property_id"] for c in registry["checks"]}
    for name in ids:
        d = os.path.join(VERIF, "seeded", name)
        patch = os.path.join(d, "patch.diff")
        if not os.path.exists(patch):
            continue
        meta = json.load(open(os.path.join(d, "meta.json"))) if os.path.exists(os.path.join(d, "meta.json")) else {}
        sh(["git", "reset", "--hard", "-q"], cwd=REPO)
        sh(["git", "clean", "-fdq"], cwd=REPO)
        rc, o = sh(["git", "apply", patch], cwd=REPO)
        if rc != 0:
            results[name] = {"status": "patch does not apply", "detail": o[-300:]}
            json.dump(results, open(out, "w"), indent=1)
            continue
        entry = {"status": "ran", "checks": {}}
        for p in props_for(name, meta):
            if p not in claimed:
                entry["checks"][p] = {"exit": None, "note": "property not claimed yet"}
                continue
            t0 = time.time()
            try:
                rc, o = sh(["./check", p, "quick"], cwd=VERIF, timeout=3000)
            except subprocess.TimeoutExpired:
                rc, o = None, "timeout"
            lines = [l for l in o.splitlines() if l.startswith("VIOLATION") or l.startswith("  kind=") or l.startswith("INCONCLUSIVE")]
            entry["checks"][p] = {"exit": rc, "secs": round(time.time() - t0), "lines": [l[:400] for l in lines[:6]], "tail": o.splitlines()[-1:] }
            print(name, p, "exit", rc, round(time.time() - t0), "s", flush=True)
        sh(["git", "reset", "--hard", "-q"], cwd=REPO)
        sh(["git", "clean", "-fdq"], cwd=REPO)
        results[name] = entry
        json.dump(results, open(out, "w"), indent=1)
    print("seeded run done", flush=True)

if __name__ == "__main__":
    main()
