#!/bin/bash
# Re-runs every quick check on /repo's current tree and validates the evidence files
# (the committed evidence must come from clean runs, never from experiments with seeded changes).
cd "$(dirname "$0")/.."
test -z "$(git -C /repo status --porcelain)" || { echo "/repo working tree is not clean"; exit 1; }
fail=0
for c in C01 C02 C03 C04 C05 C06 C07 C08 C09 C10 C11 C12 C13 C14 C15 C16 C17 C18 C19 C20; do
  s=$(date +%s)
  VERIF_SEED=${VERIF_SEED:-1} ./check $c quick > /tmp/regen-$c.log 2>&1; rc=$?
  e=$(date +%s)
  echo "$c exit=$rc $((e-s))s $(tail -1 /tmp/regen-$c.log | cut -c1-120)"
  [ $rc = 0 ] || fail=1
done
python3-vt - <<'PY'
import json, jsonschema, glob, sys
schema = json.load(open('/root/.vp/EVIDENCE.schema.json'))
bad = 0
for f in sorted(glob.glob('evidence/*.json')):
    e = json.load(open(f))
    try:
        jsonschema.validate(e, schema)
    except Exception as x:
        print("INVALID", f, str(x)[:200]); bad = 1
    if e.get('tier') != 'quick' or e.get('violations', 0) != 0 or e['coverage'].get('verdict') != 'held on what was observed':
        print("NOT A CLEAN QUICK RUN", f, e.get('tier'), e.get('violations'), e['coverage'].get('verdict')); bad = 1
print("evidence files valid" if not bad else "evidence problems")
sys.exit(bad)
PY
[ $? = 0 ] || fail=1
exit $fail
