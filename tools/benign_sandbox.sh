#!/bin/bash
# Runs tools/run_benign.py against scratch copies of /repo and /verif in a private mount
# namespace, so that nothing under the real /repo or /verif is touched while it works.
# usage: seeded_sandbox.sh <results.json> [ids...]
set -e
S=/tmp/benignrun
rm -rf $S; mkdir -p $S/work
git -C /repo worktree prune
rsync -a --exclude target /repo/ $S/repo/
git -C /verif worktree remove --force $S/verif 2>/dev/null || true
rsync -a --exclude work --exclude replays /verif/ $S/verif/
mkdir -p $S/verif/work $S/verif/replays
RES=$1; shift
unshare -m bash -c "mount --bind $S/repo /repo && mount --bind $S/verif /verif && cd /verif && python3 tools/run_benign.py $RES $*"
rm -rf $S
