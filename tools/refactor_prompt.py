#!/usr/bin/env python3
"""Prints the brief given to an independent sub-agent that writes behaviour-preserving changes
(the false-alarm side of the validation). usage: refactor_prompt.py <Rn> "<area of the code>" """
import json, sys
rid, area = sys.argv[1], sys.argv[2]
props = "\n".join('%s — %s\n%s\n' % (p['id'], p['title'], p['statement']) for p in (json.loads(l) for l in open('/verif/properties.jsonl')))
print(f"""You are helping to evaluate a verification effort for the Rust project arnodb/truc (a build-time code generator for fixed-size, evolving record types with packed byte layouts, crate `truc`, plus a small unsafe runtime `truc_runtime` with an in-place vector conversion). This time you play a careful maintainer, not an adversary.

You have your own scratch git worktree at /tmp/ref-{rid} (detached checkout; work ONLY there and in /tmp/ref-{rid}-out; never touch /repo or /verif and do not read anything under /verif). No network: pass --offline to cargo; use `export CARGO_TARGET_DIR=/tmp/ref-{rid}/target`.

The project is supposed to satisfy these twenty behavioural properties:

{props}

YOUR TASK: produce THREE independent, *behaviour-preserving or behaviour-improving* changes (call them a, b, c) in this area of the code: {area}. Each change must
  1. keep ALL twenty properties above true (be careful and conservative: when in doubt, do not make the change),
  2. compile, and keep the existing suite green (`cargo test --workspace --no-fail-fast --offline`, 66 tests incl. doc tests; run it twice),
  3. be a real, non-trivial code change a maintainer might make: a refactoring (restructured loops, different but equivalent data structures, helper functions, renamed internals), a performance tweak, a *different but still valid* policy, different panic / error message texts, extra derives, changed internal ordering that does not affect the output where the properties require determinism, etc. Not a comment-only or whitespace-only change, and at least 10 changed lines each.
  4. NOT touch the off-by-default instrumentation (`truc_runtime/src/data/verif.rs` and the `#[cfg(feature = "verif-hooks")]` / `cfg_attr` lines in data.rs) and not change the public API signatures that generated code or users call.
Note that many generator fragments have exact-text unit tests, so changes there must keep the generated text for the tested shapes (or be elsewhere).

DELIVERABLES in /tmp/ref-{rid}-out/a, /b, /c: `patch.diff` (git diff restricted to truc/src and truc_runtime/src, must `git apply --check` on the clean checkout) and `notes.md` (what the change is, why every one of the twenty properties still holds, the commands you ran and their results). Leave the worktree clean at the end (`git checkout -- . && git clean -fdq -e target`). Report back briefly what the three changes are. If you can only produce two good ones, say so.""")
