#!/usr/bin/env python3
"""Regenerates /verif/MANIFEST.json from the table below (single source of truth)."""
import json, os, sys

ROOT = os.path.dirname(os.path.dirname(os.path.abspath(__file__)))

# property id -> dict(engine, category, text, note, technique, design_ref); only built checks are listed
CHECKS = {}

def load_checks():
    path = os.path.join(ROOT, "tools", "checks_table.json")
    if os.path.exists(path):
        return json.load(open(path))
    return {}

def main():
    checks_table = load_checks()
    props = [json.loads(l) for l in open(os.path.join(ROOT, "properties.jsonl"))]
    checks = []
    not_applicable = []
    for p in props:
        pid = p["id"]
        c = checks_table.get(pid)
        if c is None or c.get("status") != "built":
            not_applicable.append({
                "property_id": pid,
                "reason": (c or {}).get("reason", "check not built yet (work in progress; see DESIGN.md section 4 for the planned monitor)"),
            })
            continue
        entry = {
            "property_id": pid,
            "quick_cmd": "./check %s quick" % pid,
            "thorough_cmd": "./check %s thorough" % pid,
            "evidence_file": "evidence/%s.json" % pid,
            "replay_cmd_template": "./check %s --replay {path}" % pid,
            "engine": c["engine"],
            "level_claimed": {
                "category": c["category"],
                "text": c["text"],
                "design_ref": c.get("design_ref", "DESIGN.md section 4, " + pid),
            },
            "level_note": c["note"],
            "technique": c["technique"],
        }
        checks.append(entry)
    manifest = {
        "version": 1,
        "setup_cmd": "./setup.sh",
        "hooks": {
            "guard": "verif-hooks",
            "enable": "cargo feature `verif-hooks` of truc_runtime (off by default); the generated-driver crates enable it through their own feature `hooks` = [\"truc_runtime/verif-hooks\"]; no hook is needed in the `truc` crate",
            "baseline_off_cmd": "cd /repo && cargo nextest run --workspace --no-fail-fast --offline || cargo test --workspace --no-fail-fast --offline",
            "source_commits": ["36238f9", "21ce029", "8d4814d", "9e91616", "46d8cee"],
            "add_only": True,
        },
        "engines": [
            {"name": "layoutmon", "path": "harness/layoutmon", "serves_properties": ["C01", "C02", "C03", "C12", "C13", "C18", "C19", "C20"],
             "kind_free_text": "engine A: seeded + directed + small-scope builder histories applied to the real builders and strategies; online monitors after every request (reference-model comparison, layout invariants, snapshot stability, panic freedom, determinism digests); also emits generated modules and drivers for engines B and D"},
            {"name": "gendrv", "path": "harness/drvlib (+ emitted crates under work/)", "serves_properties": ["C02", "C03", "C04", "C05", "C06", "C07", "C13", "C15", "C16"],
             "kind_free_text": "engine B: generate() output compiled by the real compiler and driven by seeded episode interpreters against a field->id reference model, a births/deaths ledger and the verif-hooks shadow; native debug/release x hooks on/off, Miri (Stacked and Tree Borrows, symbolic alignment), valgrind memcheck"},
            {"name": "vecmon", "path": "harness/vecmon", "serves_properties": ["C08", "C09", "C10"],
             "kind_free_text": "engine C: in-place vector conversion driven over exhaustive small patterns and fault positions plus random long vectors; oracles: filter_map model, call log, ledger, allocator event log; native debug/release, Miri, valgrind"},
            {"name": "probes", "path": "harness/layoutmon (emitter) + rustc", "serves_properties": ["C11", "C14", "C17"],
             "kind_free_text": "engine D: compile probes — the real generator's output for perturbed definitions is handed to the real compiler, paired with an unperturbed control; verdict of the compiler recorded as an event, dynamic witness attached where one exists"},
        ],
        "checks": checks,
        "notes": "Family under study: runtime monitoring and sanitizers. Every check is `./check <id> quick|thorough`; VERIF_SEED selects the workload; evidence is rewritten by every run; known findings are in known_findings.json (read-only at run time).",
        "not_applicable": not_applicable,
    }
    with open(os.path.join(ROOT, "MANIFEST.json"), "w") as f:
        json.dump(manifest, f, indent=1)
        f.write("\n")

if __name__ == "__main__":
    main()
