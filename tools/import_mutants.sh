#!/bin/bash
# Validates sub-agent mutants in a scratch worktree and imports the valid ones into /verif/seeded/.
# usage: import_mutants.sh C01 C02 ...   (reads /tmp/mut-<id>-out/{a,b})
set -u
export CARGO_NET_OFFLINE=true
SFX=${MUTCHECK_SUFFIX:-}
WT=/tmp/mutcheck-wt$SFX
LOG=/tmp/mutcheck.log
git -C /repo worktree remove --force $WT 2>/dev/null
git -C /repo worktree add -q --detach $WT HEAD || exit 1
cp /repo/Cargo.lock $WT/Cargo.lock 2>/dev/null   # not tracked; some demonstrations pin versions with it
export CARGO_TARGET_DIR=/tmp/mutcheck-target$SFX
for id in "$@"; do
  for v in a b; do
    src=/tmp/mut-$id-out/$v
    [ -f $src/patch.diff ] || { echo "$id-$v: no patch" | tee -a $LOG; continue; }
    name=$id-$v
    # second and later waves are imported under other letters: WAVE_MAP="a:c,b:d"
    if [ -n "${WAVE_MAP:-}" ]; then nv=$(echo "$WAVE_MAP" | tr ',' '\n' | grep "^$v:" | cut -d: -f2); name=$id-${nv:-$v}; fi
    git -C $WT checkout -q -- . ; git -C $WT clean -fdq -e Cargo.lock
    # 1. demo passes without the change
    demo=$src/demo/demo.sh
    t0=$(date +%s)
    if [ -f $demo ]; then
      (cd $src/demo && bash ./demo.sh $WT) > /tmp/mutcheck-$name-without.log 2>&1; without=$?
    else without=99; fi
    git -C $WT checkout -q -- . ; git -C $WT clean -fdq -e Cargo.lock
    # 2. patch applies
    if ! git -C $WT apply $src/patch.diff 2>/tmp/mutcheck-$name-apply.log; then echo "$name: patch does not apply on HEAD: $(head -2 /tmp/mutcheck-$name-apply.log | tr '\n' ' ')" | tee -a $LOG; continue; fi
    # 3. suite green with the change (twice)
    suite=0
    for r in 1 2; do
      (cd $WT && cargo test --workspace --no-fail-fast --offline) > /tmp/mutcheck-$name-suite.log 2>&1 || suite=1
    done
    # 4. demo fails with the change
    if [ -f $demo ]; then
      (cd $src/demo && bash ./demo.sh $WT) > /tmp/mutcheck-$name-with.log 2>&1; with=$?
    else with=99; fi
    git -C $WT checkout -q -- . ; git -C $WT clean -fdq
    t1=$(date +%s)
    verdict=INVALID
    if [ $suite = 0 ] && [ $without = 0 ] && [ $with != 0 ] && [ $with != 99 ]; then verdict=VALID; fi
    echo "$name: $verdict suite=$suite demo_without=$without demo_with=$with ($((t1-t0))s)" | tee -a $LOG
    if [ $verdict = VALID ]; then
      dst=/verif/seeded/$name
      rm -rf $dst; mkdir -p $dst
      cp $src/patch.diff $dst/patch.diff
      cp -r $src/demo $dst/demo
      cp $src/notes.md $dst/notes.md 2>/dev/null
      python3 - "$id" "$name" "$dst" "$without" "$with" <<'PY'
import json,sys
pid,name,dst,without,withc=sys.argv[1:6]
notes=open(dst+"/notes.md").read() if __import__("os").path.exists(dst+"/notes.md") else ""
json.dump({"id":name,"property":pid,"origin":"independent sub-agent given only the property text and a scratch worktree",
 "needs_to_manifest":"see notes.md (written by the author of the change)",
 "confirmed":{"applies_on_repo_head":True,"suite_green_with_change":"cargo test --workspace --no-fail-fast --offline, 2 runs, exit 0",
   "demo_without_change_exit":int(without),"demo_with_change_exit":int(withc)},
 "detected_by":"(filled in by tools/run_seeded.py)"},open(dst+"/meta.json","w"),indent=1)
PY
    fi
  done
done
git -C /repo worktree remove --force $WT
rm -rf /tmp/mutcheck-target$SFX
echo "import done" | tee -a $LOG
