use truc_runtime::data::RecordMaybeUninit;

/// Maximum size of the record, regardless of the record variant.
///
/// Use that value, or a greater value, as the `CAP` const generic of every record.
pub const MAX_SIZE: usize = 201;

/// Uninitialized record.
///
/// It will never drop any data except the container by itself.
///
/// # Intention
///
/// This is to be used in custom allocators.
#[repr(align(16))]
pub struct RecordUninitialized<const CAP: usize> {
    _data: RecordMaybeUninit<CAP>,
}

unsafe impl<const CAP: usize> Send for RecordUninitialized<CAP> {}

unsafe impl<const CAP: usize> Sync for RecordUninitialized<CAP> {}

/// Data container for packing/unpacking records.
///
/// All the fields are named for the safe interoperability between the generated code and the code
/// using it.
pub struct UnpackedRecord0 {
    pub z900: Vec < u32 >,
    pub z899: std::mem::MaybeUninit<u64>,
    pub z898: vtypes :: Tracked,
    pub z897: [vtypes :: Tracked ; 2],
}

/// Data container for packing/unpacking records without the data to be left uninitialized.
///
/// All the fields are named for the safe interoperability between the generated code and the code
/// using it.
pub struct UnpackedUninitRecord0 {
    pub z900: Vec < u32 >,
    pub z898: vtypes :: Tracked,
    pub z897: [vtypes :: Tracked ; 2],
}

/// It only exists to check that the uninitialized data is actually [`Copy`] at run time.
struct UnpackedUninitSafeRecord0<T1: Copy> {
    pub z900: Vec < u32 >,
    pub z899: std::marker::PhantomData<T1>,
    pub z898: vtypes :: Tracked,
    pub z897: [vtypes :: Tracked ; 2],
}

impl<T1: Copy> From<UnpackedUninitRecord0> for UnpackedUninitSafeRecord0<T1> {
    fn from(from: UnpackedUninitRecord0) -> Self {
        Self { z900: from.z900, z899: std::marker::PhantomData, z898: from.z898, z897: from.z897 }
    }
}

/// Record variant #0.
///
/// It may be created from initial data via one of [`new`](Self::new) or [`new_uninit`](Self::new_uninit)
#[repr(align(16))]
pub struct CappedRecord0<const CAP: usize> {
    data: RecordMaybeUninit<CAP>,
}

/// Record variant #0 with optimized capacity.
pub type Record0 = CappedRecord0<{ MAX_SIZE }>;

impl<const CAP: usize> CappedRecord0<CAP> {
    pub fn new(from: UnpackedRecord0) -> Self {
        let mut data = RecordMaybeUninit::new();
        unsafe { data.write(0, from.z900); }
        unsafe { data.write(24, from.z899); }
        unsafe { data.write(32, from.z898); }
        unsafe { data.write(56, from.z897); }
        Self { data }
    }

    pub fn new_uninit(from: UnpackedUninitRecord0) -> Self {
        let from = UnpackedUninitSafeRecord0::<std::mem::MaybeUninit<u64>>::from(from);
        let mut data = RecordMaybeUninit::new();
        unsafe { data.write(0, from.z900); }
        unsafe { data.write(32, from.z898); }
        unsafe { data.write(56, from.z897); }
        Self { data }
    }

    pub fn unpack(self) -> UnpackedRecord0 {
        let z900: Vec < u32 > = unsafe { self.data.read(0) };
        let z899: std::mem::MaybeUninit<u64> = unsafe { self.data.read(24) };
        let z898: vtypes :: Tracked = unsafe { self.data.read(32) };
        let z897: [vtypes :: Tracked ; 2] = unsafe { self.data.read(56) };
        std::mem::forget(self);
        UnpackedRecord0 { z900, z899, z898, z897 }
    }

    pub fn z900(&self) -> &Vec < u32 > {
        unsafe { self.data.get::<Vec < u32 >>(0) }
    }

    pub fn z900_mut(&mut self) -> &mut Vec < u32 > {
        unsafe { self.data.get_mut::<Vec < u32 >>(0) }
    }

    pub fn z899(&self) -> &std::mem::MaybeUninit<u64> {
        unsafe { self.data.get::<std::mem::MaybeUninit<u64>>(24) }
    }

    pub fn z899_mut(&mut self) -> &mut std::mem::MaybeUninit<u64> {
        unsafe { self.data.get_mut::<std::mem::MaybeUninit<u64>>(24) }
    }

    pub fn z898(&self) -> &vtypes :: Tracked {
        unsafe { self.data.get::<vtypes :: Tracked>(32) }
    }

    pub fn z898_mut(&mut self) -> &mut vtypes :: Tracked {
        unsafe { self.data.get_mut::<vtypes :: Tracked>(32) }
    }

    pub fn z897(&self) -> &[vtypes :: Tracked ; 2] {
        unsafe { self.data.get::<[vtypes :: Tracked ; 2]>(56) }
    }

    pub fn z897_mut(&mut self) -> &mut [vtypes :: Tracked ; 2] {
        unsafe { self.data.get_mut::<[vtypes :: Tracked ; 2]>(56) }
    }
}

/// Thread safety witness of record variant #0.
///
/// It is [`Send`] (resp. [`Sync`]) if and only if all the data of the variant are.
#[doc(hidden)]
pub struct Record0ThreadSafety<const CAP: usize>(std::marker::PhantomData<UnpackedRecord0>);

unsafe impl<const CAP: usize> Send for CappedRecord0<CAP> where Record0ThreadSafety<CAP>: Send {}

unsafe impl<const CAP: usize> Sync for CappedRecord0<CAP> where Record0ThreadSafety<CAP>: Sync {}

impl<const CAP: usize> Drop for CappedRecord0<CAP> {
    fn drop(&mut self) {
        let _z900: Vec < u32 > = unsafe { self.data.read(0) };
        let _z899: std::mem::MaybeUninit<u64> = unsafe { self.data.read(24) };
        let _z898: vtypes :: Tracked = unsafe { self.data.read(32) };
        let _z897: [vtypes :: Tracked ; 2] = unsafe { self.data.read(56) };
    }
}

impl<const CAP: usize> From<UnpackedRecord0> for CappedRecord0<CAP> {
    fn from(from: UnpackedRecord0) -> Self {
        Self::new(from)
    }
}

impl<const CAP: usize> From<UnpackedUninitRecord0> for CappedRecord0<CAP> {
    fn from(from: UnpackedUninitRecord0) -> Self {
        Self::new_uninit(from)
    }
}

/// Data container for packing/unpacking records.
///
/// All the fields are named for the safe interoperability between the generated code and the code
/// using it.
pub struct UnpackedRecord1 {
    pub z900: Vec < u32 >,
    pub z899: std::mem::MaybeUninit<u64>,
    pub z898: vtypes :: Tracked,
    pub z897: [vtypes :: Tracked ; 2],
    pub z896: std::mem::MaybeUninit<u64>,
}

/// Data container for packing/unpacking records without the data to be left uninitialized.
///
/// All the fields are named for the safe interoperability between the generated code and the code
/// using it.
pub struct UnpackedUninitRecord1 {
    pub z900: Vec < u32 >,
    pub z898: vtypes :: Tracked,
    pub z897: [vtypes :: Tracked ; 2],
}

/// It only exists to check that the uninitialized data is actually [`Copy`] at run time.
struct UnpackedUninitSafeRecord1<T1: Copy, T4: Copy> {
    pub z900: Vec < u32 >,
    pub z899: std::marker::PhantomData<T1>,
    pub z898: vtypes :: Tracked,
    pub z897: [vtypes :: Tracked ; 2],
    pub z896: std::marker::PhantomData<T4>,
}

impl<T1: Copy, T4: Copy> From<UnpackedUninitRecord1> for UnpackedUninitSafeRecord1<T1, T4> {
    fn from(from: UnpackedUninitRecord1) -> Self {
        Self { z900: from.z900, z899: std::marker::PhantomData, z898: from.z898, z897: from.z897, z896: std::marker::PhantomData }
    }
}

/// Record variant #1.
///
/// It may be converted from a [`Record0`] via one of the various call to [`From::from`]
///
/// It may also be created from initial data via one of [`new`](Self::new) or [`new_uninit`](Self::new_uninit)
#[repr(align(16))]
pub struct CappedRecord1<const CAP: usize> {
    data: RecordMaybeUninit<CAP>,
}

/// Record variant #1 with optimized capacity.
pub type Record1 = CappedRecord1<{ MAX_SIZE }>;

impl<const CAP: usize> CappedRecord1<CAP> {
    pub fn new(from: UnpackedRecord1) -> Self {
        let mut data = RecordMaybeUninit::new();
        unsafe { data.write(0, from.z900); }
        unsafe { data.write(24, from.z899); }
        unsafe { data.write(32, from.z898); }
        unsafe { data.write(56, from.z897); }
        unsafe { data.write(104, from.z896); }
        Self { data }
    }

    pub fn new_uninit(from: UnpackedUninitRecord1) -> Self {
        let from = UnpackedUninitSafeRecord1::<std::mem::MaybeUninit<u64>, std::mem::MaybeUninit<u64>>::from(from);
        let mut data = RecordMaybeUninit::new();
        unsafe { data.write(0, from.z900); }
        unsafe { data.write(32, from.z898); }
        unsafe { data.write(56, from.z897); }
        Self { data }
    }

    pub fn unpack(self) -> UnpackedRecord1 {
        let z900: Vec < u32 > = unsafe { self.data.read(0) };
        let z899: std::mem::MaybeUninit<u64> = unsafe { self.data.read(24) };
        let z898: vtypes :: Tracked = unsafe { self.data.read(32) };
        let z897: [vtypes :: Tracked ; 2] = unsafe { self.data.read(56) };
        let z896: std::mem::MaybeUninit<u64> = unsafe { self.data.read(104) };
        std::mem::forget(self);
        UnpackedRecord1 { z900, z899, z898, z897, z896 }
    }

    pub fn z900(&self) -> &Vec < u32 > {
        unsafe { self.data.get::<Vec < u32 >>(0) }
    }

    pub fn z900_mut(&mut self) -> &mut Vec < u32 > {
        unsafe { self.data.get_mut::<Vec < u32 >>(0) }
    }

    pub fn z899(&self) -> &std::mem::MaybeUninit<u64> {
        unsafe { self.data.get::<std::mem::MaybeUninit<u64>>(24) }
    }

    pub fn z899_mut(&mut self) -> &mut std::mem::MaybeUninit<u64> {
        unsafe { self.data.get_mut::<std::mem::MaybeUninit<u64>>(24) }
    }

    pub fn z898(&self) -> &vtypes :: Tracked {
        unsafe { self.data.get::<vtypes :: Tracked>(32) }
    }

    pub fn z898_mut(&mut self) -> &mut vtypes :: Tracked {
        unsafe { self.data.get_mut::<vtypes :: Tracked>(32) }
    }

    pub fn z897(&self) -> &[vtypes :: Tracked ; 2] {
        unsafe { self.data.get::<[vtypes :: Tracked ; 2]>(56) }
    }

    pub fn z897_mut(&mut self) -> &mut [vtypes :: Tracked ; 2] {
        unsafe { self.data.get_mut::<[vtypes :: Tracked ; 2]>(56) }
    }

    pub fn z896(&self) -> &std::mem::MaybeUninit<u64> {
        unsafe { self.data.get::<std::mem::MaybeUninit<u64>>(104) }
    }

    pub fn z896_mut(&mut self) -> &mut std::mem::MaybeUninit<u64> {
        unsafe { self.data.get_mut::<std::mem::MaybeUninit<u64>>(104) }
    }
}

/// Thread safety witness of record variant #1.
///
/// It is [`Send`] (resp. [`Sync`]) if and only if all the data of the variant are.
#[doc(hidden)]
pub struct Record1ThreadSafety<const CAP: usize>(std::marker::PhantomData<UnpackedRecord1>);

unsafe impl<const CAP: usize> Send for CappedRecord1<CAP> where Record1ThreadSafety<CAP>: Send {}

unsafe impl<const CAP: usize> Sync for CappedRecord1<CAP> where Record1ThreadSafety<CAP>: Sync {}

impl<const CAP: usize> Drop for CappedRecord1<CAP> {
    fn drop(&mut self) {
        let _z900: Vec < u32 > = unsafe { self.data.read(0) };
        let _z899: std::mem::MaybeUninit<u64> = unsafe { self.data.read(24) };
        let _z898: vtypes :: Tracked = unsafe { self.data.read(32) };
        let _z897: [vtypes :: Tracked ; 2] = unsafe { self.data.read(56) };
        let _z896: std::mem::MaybeUninit<u64> = unsafe { self.data.read(104) };
    }
}

impl<const CAP: usize> From<UnpackedRecord1> for CappedRecord1<CAP> {
    fn from(from: UnpackedRecord1) -> Self {
        Self::new(from)
    }
}

impl<const CAP: usize> From<UnpackedUninitRecord1> for CappedRecord1<CAP> {
    fn from(from: UnpackedUninitRecord1) -> Self {
        Self::new_uninit(from)
    }
}

/// Data container for conversion from [`Record0`].
pub struct UnpackedRecordIn1 {
    pub z896: std::mem::MaybeUninit<u64>,
}

/// Data container for conversion from [`Record0`] without the data to be left uninitialized.
pub struct UnpackedUninitRecordIn1;

/// It only exists to check that the uninitialized data is actually [`Copy`] at run time.
struct UnpackedUninitSafeRecordIn1<T0: Copy> {
    pub z896: std::marker::PhantomData<T0>,
}

impl<T0: Copy> From<UnpackedUninitRecordIn1> for UnpackedUninitSafeRecordIn1<T0> {
    fn from(_from: UnpackedUninitRecordIn1) -> Self {
        Self { z896: std::marker::PhantomData }
    }
}

/// Result of conversion from record variant #0 to variant #1 via a [`From::from`] call.
///
/// It contains all the removed data so that one can still use them, or drop them.
pub struct Record1AndUnpackedOut<const CAP: usize> {
    pub record: CappedRecord1<CAP>,
}

impl<const CAP: usize> From<(CappedRecord0<CAP>, UnpackedRecordIn1)> for CappedRecord1<CAP> {
    fn from((from, plus): (CappedRecord0<CAP>, UnpackedRecordIn1)) -> Self {
        let manually_drop = std::mem::ManuallyDrop::new(from);
        let mut data = unsafe { std::ptr::read(&manually_drop.data) };
        unsafe { data.write(104, plus.z896); }
        Self { data }
    }
}

impl<const CAP: usize> From<(CappedRecord0<CAP>, UnpackedUninitRecordIn1)> for CappedRecord1<CAP> {
    fn from((from, plus): (CappedRecord0<CAP>, UnpackedUninitRecordIn1)) -> Self {
        let _plus = UnpackedUninitSafeRecordIn1::<std::mem::MaybeUninit<u64>>::from(plus);
        let manually_drop = std::mem::ManuallyDrop::new(from);
        let data = unsafe { std::ptr::read(&manually_drop.data) };
        Self { data }
    }
}

impl<const CAP: usize> From<(CappedRecord0<CAP>, UnpackedRecordIn1)> for Record1AndUnpackedOut<CAP> {
    fn from((from, plus): (CappedRecord0<CAP>, UnpackedRecordIn1)) -> Self {
        let manually_drop = std::mem::ManuallyDrop::new(from);
        let mut data = unsafe { std::ptr::read(&manually_drop.data) };
        unsafe { data.write(104, plus.z896); }
        let record = CappedRecord1 { data };
        Record1AndUnpackedOut { record }
    }
}

impl<const CAP: usize> From<(CappedRecord0<CAP>, UnpackedUninitRecordIn1)> for Record1AndUnpackedOut<CAP> {
    fn from((from, plus): (CappedRecord0<CAP>, UnpackedUninitRecordIn1)) -> Self {
        let _plus = UnpackedUninitSafeRecordIn1::<std::mem::MaybeUninit<u64>>::from(plus);
        let manually_drop = std::mem::ManuallyDrop::new(from);
        let data = unsafe { std::ptr::read(&manually_drop.data) };
        let record = CappedRecord1 { data };
        Record1AndUnpackedOut { record }
    }
}

/// Data container for packing/unpacking records.
///
/// All the fields are named for the safe interoperability between the generated code and the code
/// using it.
pub struct UnpackedRecord2 {
    pub z900: Vec < u32 >,
    pub z899: std::mem::MaybeUninit<u64>,
    pub z898: vtypes :: Tracked,
    pub z897: [vtypes :: Tracked ; 2],
    pub z896: std::mem::MaybeUninit<u64>,
    pub z895: Vec < u32 >,
    pub z894: (),
    pub z893: vtypes :: Tracked,
}

/// Data container for packing/unpacking records without the data to be left uninitialized.
///
/// All the fields are named for the safe interoperability between the generated code and the code
/// using it.
pub struct UnpackedUninitRecord2 {
    pub z900: Vec < u32 >,
    pub z898: vtypes :: Tracked,
    pub z897: [vtypes :: Tracked ; 2],
    pub z895: Vec < u32 >,
    pub z894: (),
    pub z893: vtypes :: Tracked,
}

/// It only exists to check that the uninitialized data is actually [`Copy`] at run time.
struct UnpackedUninitSafeRecord2<T1: Copy, T4: Copy> {
    pub z900: Vec < u32 >,
    pub z899: std::marker::PhantomData<T1>,
    pub z898: vtypes :: Tracked,
    pub z897: [vtypes :: Tracked ; 2],
    pub z896: std::marker::PhantomData<T4>,
    pub z895: Vec < u32 >,
    pub z894: (),
    pub z893: vtypes :: Tracked,
}

impl<T1: Copy, T4: Copy> From<UnpackedUninitRecord2> for UnpackedUninitSafeRecord2<T1, T4> {
    fn from(from: UnpackedUninitRecord2) -> Self {
        Self { z900: from.z900, z899: std::marker::PhantomData, z898: from.z898, z897: from.z897, z896: std::marker::PhantomData, z895: from.z895, z894: from.z894, z893: from.z893 }
    }
}

/// Record variant #2.
///
/// It may be converted from a [`Record1`] via one of the various call to [`From::from`]
///
/// It may also be created from initial data via one of [`new`](Self::new) or [`new_uninit`](Self::new_uninit)
#[repr(align(16))]
pub struct CappedRecord2<const CAP: usize> {
    data: RecordMaybeUninit<CAP>,
}

/// Record variant #2 with optimized capacity.
pub type Record2 = CappedRecord2<{ MAX_SIZE }>;

impl<const CAP: usize> CappedRecord2<CAP> {
    pub fn new(from: UnpackedRecord2) -> Self {
        let mut data = RecordMaybeUninit::new();
        unsafe { data.write(0, from.z900); }
        unsafe { data.write(24, from.z899); }
        unsafe { data.write(32, from.z898); }
        unsafe { data.write(56, from.z897); }
        unsafe { data.write(104, from.z896); }
        unsafe { data.write(112, from.z895); }
        unsafe { data.write(136, from.z894); }
        unsafe { data.write(136, from.z893); }
        Self { data }
    }

    pub fn new_uninit(from: UnpackedUninitRecord2) -> Self {
        let from = UnpackedUninitSafeRecord2::<std::mem::MaybeUninit<u64>, std::mem::MaybeUninit<u64>>::from(from);
        let mut data = RecordMaybeUninit::new();
        unsafe { data.write(0, from.z900); }
        unsafe { data.write(32, from.z898); }
        unsafe { data.write(56, from.z897); }
        unsafe { data.write(112, from.z895); }
        unsafe { data.write(136, from.z894); }
        unsafe { data.write(136, from.z893); }
        Self { data }
    }

    pub fn unpack(self) -> UnpackedRecord2 {
        let z900: Vec < u32 > = unsafe { self.data.read(0) };
        let z899: std::mem::MaybeUninit<u64> = unsafe { self.data.read(24) };
        let z898: vtypes :: Tracked = unsafe { self.data.read(32) };
        let z897: [vtypes :: Tracked ; 2] = unsafe { self.data.read(56) };
        let z896: std::mem::MaybeUninit<u64> = unsafe { self.data.read(104) };
        let z895: Vec < u32 > = unsafe { self.data.read(112) };
        let z894: () = unsafe { self.data.read(136) };
        let z893: vtypes :: Tracked = unsafe { self.data.read(136) };
        std::mem::forget(self);
        UnpackedRecord2 { z900, z899, z898, z897, z896, z895, z894, z893 }
    }

    pub fn z900(&self) -> &Vec < u32 > {
        unsafe { self.data.get::<Vec < u32 >>(0) }
    }

    pub fn z900_mut(&mut self) -> &mut Vec < u32 > {
        unsafe { self.data.get_mut::<Vec < u32 >>(0) }
    }

    pub fn z899(&self) -> &std::mem::MaybeUninit<u64> {
        unsafe { self.data.get::<std::mem::MaybeUninit<u64>>(24) }
    }

    pub fn z899_mut(&mut self) -> &mut std::mem::MaybeUninit<u64> {
        unsafe { self.data.get_mut::<std::mem::MaybeUninit<u64>>(24) }
    }

    pub fn z898(&self) -> &vtypes :: Tracked {
        unsafe { self.data.get::<vtypes :: Tracked>(32) }
    }

    pub fn z898_mut(&mut self) -> &mut vtypes :: Tracked {
        unsafe { self.data.get_mut::<vtypes :: Tracked>(32) }
    }

    pub fn z897(&self) -> &[vtypes :: Tracked ; 2] {
        unsafe { self.data.get::<[vtypes :: Tracked ; 2]>(56) }
    }

    pub fn z897_mut(&mut self) -> &mut [vtypes :: Tracked ; 2] {
        unsafe { self.data.get_mut::<[vtypes :: Tracked ; 2]>(56) }
    }

    pub fn z896(&self) -> &std::mem::MaybeUninit<u64> {
        unsafe { self.data.get::<std::mem::MaybeUninit<u64>>(104) }
    }

    pub fn z896_mut(&mut self) -> &mut std::mem::MaybeUninit<u64> {
        unsafe { self.data.get_mut::<std::mem::MaybeUninit<u64>>(104) }
    }

    pub fn z895(&self) -> &Vec < u32 > {
        unsafe { self.data.get::<Vec < u32 >>(112) }
    }

    pub fn z895_mut(&mut self) -> &mut Vec < u32 > {
        unsafe { self.data.get_mut::<Vec < u32 >>(112) }
    }

    pub fn z894(&self) -> &() {
        unsafe { self.data.get::<()>(136) }
    }

    pub fn z894_mut(&mut self) -> &mut () {
        unsafe { self.data.get_mut::<()>(136) }
    }

    pub fn z893(&self) -> &vtypes :: Tracked {
        unsafe { self.data.get::<vtypes :: Tracked>(136) }
    }

    pub fn z893_mut(&mut self) -> &mut vtypes :: Tracked {
        unsafe { self.data.get_mut::<vtypes :: Tracked>(136) }
    }
}

/// Thread safety witness of record variant #2.
///
/// It is [`Send`] (resp. [`Sync`]) if and only if all the data of the variant are.
#[doc(hidden)]
pub struct Record2ThreadSafety<const CAP: usize>(std::marker::PhantomData<UnpackedRecord2>);

unsafe impl<const CAP: usize> Send for CappedRecord2<CAP> where Record2ThreadSafety<CAP>: Send {}

unsafe impl<const CAP: usize> Sync for CappedRecord2<CAP> where Record2ThreadSafety<CAP>: Sync {}

impl<const CAP: usize> Drop for CappedRecord2<CAP> {
    fn drop(&mut self) {
        let _z900: Vec < u32 > = unsafe { self.data.read(0) };
        let _z899: std::mem::MaybeUninit<u64> = unsafe { self.data.read(24) };
        let _z898: vtypes :: Tracked = unsafe { self.data.read(32) };
        let _z897: [vtypes :: Tracked ; 2] = unsafe { self.data.read(56) };
        let _z896: std::mem::MaybeUninit<u64> = unsafe { self.data.read(104) };
        let _z895: Vec < u32 > = unsafe { self.data.read(112) };
        let _z894: () = unsafe { self.data.read(136) };
        let _z893: vtypes :: Tracked = unsafe { self.data.read(136) };
    }
}

impl<const CAP: usize> From<UnpackedRecord2> for CappedRecord2<CAP> {
    fn from(from: UnpackedRecord2) -> Self {
        Self::new(from)
    }
}

impl<const CAP: usize> From<UnpackedUninitRecord2> for CappedRecord2<CAP> {
    fn from(from: UnpackedUninitRecord2) -> Self {
        Self::new_uninit(from)
    }
}

/// Data container for conversion from [`Record1`].
pub struct UnpackedRecordIn2 {
    pub z895: Vec < u32 >,
    pub z894: (),
    pub z893: vtypes :: Tracked,
}

/// Data container for conversion from [`Record1`] without the data to be left uninitialized.
pub struct UnpackedUninitRecordIn2 {
    pub z895: Vec < u32 >,
    pub z894: (),
    pub z893: vtypes :: Tracked,
}

/// It only exists to check that the uninitialized data is actually [`Copy`] at run time.
struct UnpackedUninitSafeRecordIn2 {
    pub z895: Vec < u32 >,
    pub z894: (),
    pub z893: vtypes :: Tracked,
}

impl From<UnpackedUninitRecordIn2> for UnpackedUninitSafeRecordIn2 {
    fn from(from: UnpackedUninitRecordIn2) -> Self {
        Self { z895: from.z895, z894: from.z894, z893: from.z893 }
    }
}

/// Result of conversion from record variant #1 to variant #2 via a [`From::from`] call.
///
/// It contains all the removed data so that one can still use them, or drop them.
pub struct Record2AndUnpackedOut<const CAP: usize> {
    pub record: CappedRecord2<CAP>,
}

impl<const CAP: usize> From<(CappedRecord1<CAP>, UnpackedRecordIn2)> for CappedRecord2<CAP> {
    fn from((from, plus): (CappedRecord1<CAP>, UnpackedRecordIn2)) -> Self {
        let manually_drop = std::mem::ManuallyDrop::new(from);
        let mut data = unsafe { std::ptr::read(&manually_drop.data) };
        unsafe { data.write(112, plus.z895); }
        unsafe { data.write(136, plus.z894); }
        unsafe { data.write(136, plus.z893); }
        Self { data }
    }
}

impl<const CAP: usize> From<(CappedRecord1<CAP>, UnpackedUninitRecordIn2)> for CappedRecord2<CAP> {
    fn from((from, plus): (CappedRecord1<CAP>, UnpackedUninitRecordIn2)) -> Self {
        let plus = UnpackedUninitSafeRecordIn2::from(plus);
        let manually_drop = std::mem::ManuallyDrop::new(from);
        let mut data = unsafe { std::ptr::read(&manually_drop.data) };
        unsafe { data.write(112, plus.z895); }
        unsafe { data.write(136, plus.z894); }
        unsafe { data.write(136, plus.z893); }
        Self { data }
    }
}

impl<const CAP: usize> From<(CappedRecord1<CAP>, UnpackedRecordIn2)> for Record2AndUnpackedOut<CAP> {
    fn from((from, plus): (CappedRecord1<CAP>, UnpackedRecordIn2)) -> Self {
        let manually_drop = std::mem::ManuallyDrop::new(from);
        let mut data = unsafe { std::ptr::read(&manually_drop.data) };
        unsafe { data.write(112, plus.z895); }
        unsafe { data.write(136, plus.z894); }
        unsafe { data.write(136, plus.z893); }
        let record = CappedRecord2 { data };
        Record2AndUnpackedOut { record }
    }
}

impl<const CAP: usize> From<(CappedRecord1<CAP>, UnpackedUninitRecordIn2)> for Record2AndUnpackedOut<CAP> {
    fn from((from, plus): (CappedRecord1<CAP>, UnpackedUninitRecordIn2)) -> Self {
        let plus = UnpackedUninitSafeRecordIn2::from(plus);
        let manually_drop = std::mem::ManuallyDrop::new(from);
        let mut data = unsafe { std::ptr::read(&manually_drop.data) };
        unsafe { data.write(112, plus.z895); }
        unsafe { data.write(136, plus.z894); }
        unsafe { data.write(136, plus.z893); }
        let record = CappedRecord2 { data };
        Record2AndUnpackedOut { record }
    }
}

/// Data container for packing/unpacking records.
///
/// All the fields are named for the safe interoperability between the generated code and the code
/// using it.
pub struct UnpackedRecord3 {
    pub z895: Vec < u32 >,
    pub z892: bool,
    pub z891: vtypes :: Tracked,
    pub z890: [u32 ; 3],
    pub z889: vtypes :: A16,
}

/// Data container for packing/unpacking records without the data to be left uninitialized.
///
/// All the fields are named for the safe interoperability between the generated code and the code
/// using it.
pub struct UnpackedUninitRecord3 {
    pub z895: Vec < u32 >,
    pub z892: bool,
    pub z891: vtypes :: Tracked,
    pub z890: [u32 ; 3],
    pub z889: vtypes :: A16,
}

/// It only exists to check that the uninitialized data is actually [`Copy`] at run time.
struct UnpackedUninitSafeRecord3 {
    pub z895: Vec < u32 >,
    pub z892: bool,
    pub z891: vtypes :: Tracked,
    pub z890: [u32 ; 3],
    pub z889: vtypes :: A16,
}

impl From<UnpackedUninitRecord3> for UnpackedUninitSafeRecord3 {
    fn from(from: UnpackedUninitRecord3) -> Self {
        Self { z895: from.z895, z892: from.z892, z891: from.z891, z890: from.z890, z889: from.z889 }
    }
}

/// Record variant #3.
///
/// It may be converted from a [`Record2`] via one of the various call to [`From::from`]
///
/// It may also be created from initial data via one of [`new`](Self::new) or [`new_uninit`](Self::new_uninit)
#[repr(align(16))]
pub struct CappedRecord3<const CAP: usize> {
    data: RecordMaybeUninit<CAP>,
}

/// Record variant #3 with optimized capacity.
pub type Record3 = CappedRecord3<{ MAX_SIZE }>;

impl<const CAP: usize> CappedRecord3<CAP> {
    pub fn new(from: UnpackedRecord3) -> Self {
        let mut data = RecordMaybeUninit::new();
        unsafe { data.write(112, from.z895); }
        unsafe { data.write(200, from.z892); }
        unsafe { data.write(176, from.z891); }
        unsafe { data.write(160, from.z890); }
        unsafe { data.write(144, from.z889); }
        Self { data }
    }

    pub fn new_uninit(from: UnpackedUninitRecord3) -> Self {
        let from = UnpackedUninitSafeRecord3::from(from);
        let mut data = RecordMaybeUninit::new();
        unsafe { data.write(112, from.z895); }
        unsafe { data.write(200, from.z892); }
        unsafe { data.write(176, from.z891); }
        unsafe { data.write(160, from.z890); }
        unsafe { data.write(144, from.z889); }
        Self { data }
    }

    pub fn unpack(self) -> UnpackedRecord3 {
        let z895: Vec < u32 > = unsafe { self.data.read(112) };
        let z892: bool = unsafe { self.data.read(200) };
        let z891: vtypes :: Tracked = unsafe { self.data.read(176) };
        let z890: [u32 ; 3] = unsafe { self.data.read(160) };
        let z889: vtypes :: A16 = unsafe { self.data.read(144) };
        std::mem::forget(self);
        UnpackedRecord3 { z895, z892, z891, z890, z889 }
    }

    pub fn z895(&self) -> &Vec < u32 > {
        unsafe { self.data.get::<Vec < u32 >>(112) }
    }

    pub fn z895_mut(&mut self) -> &mut Vec < u32 > {
        unsafe { self.data.get_mut::<Vec < u32 >>(112) }
    }

    pub fn z892(&self) -> &bool {
        unsafe { self.data.get::<bool>(200) }
    }

    pub fn z892_mut(&mut self) -> &mut bool {
        unsafe { self.data.get_mut::<bool>(200) }
    }

    pub fn z891(&self) -> &vtypes :: Tracked {
        unsafe { self.data.get::<vtypes :: Tracked>(176) }
    }

    pub fn z891_mut(&mut self) -> &mut vtypes :: Tracked {
        unsafe { self.data.get_mut::<vtypes :: Tracked>(176) }
    }

    pub fn z890(&self) -> &[u32 ; 3] {
        unsafe { self.data.get::<[u32 ; 3]>(160) }
    }

    pub fn z890_mut(&mut self) -> &mut [u32 ; 3] {
        unsafe { self.data.get_mut::<[u32 ; 3]>(160) }
    }

    pub fn z889(&self) -> &vtypes :: A16 {
        unsafe { self.data.get::<vtypes :: A16>(144) }
    }

    pub fn z889_mut(&mut self) -> &mut vtypes :: A16 {
        unsafe { self.data.get_mut::<vtypes :: A16>(144) }
    }
}

/// Thread safety witness of record variant #3.
///
/// It is [`Send`] (resp. [`Sync`]) if and only if all the data of the variant are.
#[doc(hidden)]
pub struct Record3ThreadSafety<const CAP: usize>(std::marker::PhantomData<UnpackedRecord3>);

unsafe impl<const CAP: usize> Send for CappedRecord3<CAP> where Record3ThreadSafety<CAP>: Send {}

unsafe impl<const CAP: usize> Sync for CappedRecord3<CAP> where Record3ThreadSafety<CAP>: Sync {}

impl<const CAP: usize> Drop for CappedRecord3<CAP> {
    fn drop(&mut self) {
        let _z895: Vec < u32 > = unsafe { self.data.read(112) };
        let _z892: bool = unsafe { self.data.read(200) };
        let _z891: vtypes :: Tracked = unsafe { self.data.read(176) };
        let _z890: [u32 ; 3] = unsafe { self.data.read(160) };
        let _z889: vtypes :: A16 = unsafe { self.data.read(144) };
    }
}

impl<const CAP: usize> From<UnpackedRecord3> for CappedRecord3<CAP> {
    fn from(from: UnpackedRecord3) -> Self {
        Self::new(from)
    }
}

impl<const CAP: usize> From<UnpackedUninitRecord3> for CappedRecord3<CAP> {
    fn from(from: UnpackedUninitRecord3) -> Self {
        Self::new_uninit(from)
    }
}

/// Data container for conversion from [`Record2`].
pub struct UnpackedRecordIn3 {
    pub z892: bool,
    pub z891: vtypes :: Tracked,
    pub z890: [u32 ; 3],
    pub z889: vtypes :: A16,
}

/// Data container for conversion from [`Record2`] without the data to be left uninitialized.
pub struct UnpackedUninitRecordIn3 {
    pub z892: bool,
    pub z891: vtypes :: Tracked,
    pub z890: [u32 ; 3],
    pub z889: vtypes :: A16,
}

/// It only exists to check that the uninitialized data is actually [`Copy`] at run time.
struct UnpackedUninitSafeRecordIn3 {
    pub z892: bool,
    pub z891: vtypes :: Tracked,
    pub z890: [u32 ; 3],
    pub z889: vtypes :: A16,
}

impl From<UnpackedUninitRecordIn3> for UnpackedUninitSafeRecordIn3 {
    fn from(from: UnpackedUninitRecordIn3) -> Self {
        Self { z892: from.z892, z891: from.z891, z890: from.z890, z889: from.z889 }
    }
}

/// Result of conversion from record variant #2 to variant #3 via a [`From::from`] call.
///
/// It contains all the removed data so that one can still use them, or drop them.
pub struct Record3AndUnpackedOut<const CAP: usize> {
    pub record: CappedRecord3<CAP>,
    pub z900: Vec < u32 >,
    pub z899: std::mem::MaybeUninit<u64>,
    pub z898: vtypes :: Tracked,
    pub z897: [vtypes :: Tracked ; 2],
    pub z896: std::mem::MaybeUninit<u64>,
    pub z894: (),
    pub z893: vtypes :: Tracked,
}

impl<const CAP: usize> From<(CappedRecord2<CAP>, UnpackedRecordIn3)> for CappedRecord3<CAP> {
    fn from((from, plus): (CappedRecord2<CAP>, UnpackedRecordIn3)) -> Self {
        let _z900: Vec < u32 > = unsafe { from.data.read(0) };
        let _z899: std::mem::MaybeUninit<u64> = unsafe { from.data.read(24) };
        let _z898: vtypes :: Tracked = unsafe { from.data.read(32) };
        let _z897: [vtypes :: Tracked ; 2] = unsafe { from.data.read(56) };
        let _z896: std::mem::MaybeUninit<u64> = unsafe { from.data.read(104) };
        let _z894: () = unsafe { from.data.read(136) };
        let _z893: vtypes :: Tracked = unsafe { from.data.read(136) };
        let manually_drop = std::mem::ManuallyDrop::new(from);
        let mut data = unsafe { std::ptr::read(&manually_drop.data) };
        unsafe { data.write(200, plus.z892); }
        unsafe { data.write(176, plus.z891); }
        unsafe { data.write(160, plus.z890); }
        unsafe { data.write(144, plus.z889); }
        Self { data }
    }
}

impl<const CAP: usize> From<(CappedRecord2<CAP>, UnpackedUninitRecordIn3)> for CappedRecord3<CAP> {
    fn from((from, plus): (CappedRecord2<CAP>, UnpackedUninitRecordIn3)) -> Self {
        let _z900: Vec < u32 > = unsafe { from.data.read(0) };
        let _z899: std::mem::MaybeUninit<u64> = unsafe { from.data.read(24) };
        let _z898: vtypes :: Tracked = unsafe { from.data.read(32) };
        let _z897: [vtypes :: Tracked ; 2] = unsafe { from.data.read(56) };
        let _z896: std::mem::MaybeUninit<u64> = unsafe { from.data.read(104) };
        let _z894: () = unsafe { from.data.read(136) };
        let _z893: vtypes :: Tracked = unsafe { from.data.read(136) };
        let plus = UnpackedUninitSafeRecordIn3::from(plus);
        let manually_drop = std::mem::ManuallyDrop::new(from);
        let mut data = unsafe { std::ptr::read(&manually_drop.data) };
        unsafe { data.write(200, plus.z892); }
        unsafe { data.write(176, plus.z891); }
        unsafe { data.write(160, plus.z890); }
        unsafe { data.write(144, plus.z889); }
        Self { data }
    }
}

impl<const CAP: usize> From<(CappedRecord2<CAP>, UnpackedRecordIn3)> for Record3AndUnpackedOut<CAP> {
    fn from((from, plus): (CappedRecord2<CAP>, UnpackedRecordIn3)) -> Self {
        let z900: Vec < u32 > = unsafe { from.data.read(0) };
        let z899: std::mem::MaybeUninit<u64> = unsafe { from.data.read(24) };
        let z898: vtypes :: Tracked = unsafe { from.data.read(32) };
        let z897: [vtypes :: Tracked ; 2] = unsafe { from.data.read(56) };
        let z896: std::mem::MaybeUninit<u64> = unsafe { from.data.read(104) };
        let z894: () = unsafe { from.data.read(136) };
        let z893: vtypes :: Tracked = unsafe { from.data.read(136) };
        let manually_drop = std::mem::ManuallyDrop::new(from);
        let mut data = unsafe { std::ptr::read(&manually_drop.data) };
        unsafe { data.write(200, plus.z892); }
        unsafe { data.write(176, plus.z891); }
        unsafe { data.write(160, plus.z890); }
        unsafe { data.write(144, plus.z889); }
        let record = CappedRecord3 { data };
        Record3AndUnpackedOut { record, z900, z899, z898, z897, z896, z894, z893 }
    }
}

impl<const CAP: usize> From<(CappedRecord2<CAP>, UnpackedUninitRecordIn3)> for Record3AndUnpackedOut<CAP> {
    fn from((from, plus): (CappedRecord2<CAP>, UnpackedUninitRecordIn3)) -> Self {
        let z900: Vec < u32 > = unsafe { from.data.read(0) };
        let z899: std::mem::MaybeUninit<u64> = unsafe { from.data.read(24) };
        let z898: vtypes :: Tracked = unsafe { from.data.read(32) };
        let z897: [vtypes :: Tracked ; 2] = unsafe { from.data.read(56) };
        let z896: std::mem::MaybeUninit<u64> = unsafe { from.data.read(104) };
        let z894: () = unsafe { from.data.read(136) };
        let z893: vtypes :: Tracked = unsafe { from.data.read(136) };
        let plus = UnpackedUninitSafeRecordIn3::from(plus);
        let manually_drop = std::mem::ManuallyDrop::new(from);
        let mut data = unsafe { std::ptr::read(&manually_drop.data) };
        unsafe { data.write(200, plus.z892); }
        unsafe { data.write(176, plus.z891); }
        unsafe { data.write(160, plus.z890); }
        unsafe { data.write(144, plus.z889); }
        let record = CappedRecord3 { data };
        Record3AndUnpackedOut { record, z900, z899, z898, z897, z896, z894, z893 }
    }
}

const_assert_eq!(std::mem::size_of::<()>(), 0);

const_assert_eq!(std::mem::size_of::<Vec < u32 >>(), 24);

const_assert_eq!(std::mem::size_of::<[u32 ; 3]>(), 12);

const_assert_eq!(std::mem::size_of::<[vtypes :: Tracked ; 2]>(), 48);

const_assert_eq!(std::mem::size_of::<bool>(), 1);

const_assert_eq!(std::mem::size_of::<std::mem::MaybeUninit<u64>>(), 8);

const_assert_eq!(std::mem::size_of::<vtypes :: A16>(), 16);

const_assert_eq!(std::mem::size_of::<vtypes :: Tracked>(), 24);

const_assert_eq!(std::mem::align_of::<()>(), 1);

const_assert_eq!(std::mem::align_of::<Vec < u32 >>(), 8);

const_assert_eq!(std::mem::align_of::<[u32 ; 3]>(), 4);

const_assert_eq!(std::mem::align_of::<[vtypes :: Tracked ; 2]>(), 8);

const_assert_eq!(std::mem::align_of::<bool>(), 1);

const_assert_eq!(std::mem::align_of::<std::mem::MaybeUninit<u64>>(), 8);

const_assert_eq!(std::mem::align_of::<vtypes :: A16>(), 16);

const_assert_eq!(std::mem::align_of::<vtypes :: Tracked>(), 8);