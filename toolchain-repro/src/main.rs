//! The generated module of one sampled definition (src/generated.rs, text written by
//! `truc::generator::generate` on the unchanged tree) and one conversion from variant 2 to
//! variant 3. Built without optimisation, and interpreted by Miri with alignment checks, this
//! program runs to its end and prints the fields. Built with `--release` by the toolchain of
//! this image it dies from SIGSEGV inside the generated `From` (an aligned SSE store to a stack
//! slot that is only 4-aligned: see README.md).
#![allow(dead_code, unused_imports, clippy::all)]
#[macro_use]
extern crate static_assertions;

mod generated {
    include!("generated.rs");
}
use generated::*;
use vtypes::Probe;

#[inline(never)]
fn convert(r: CappedRecord2<{ MAX_SIZE }>, ids: &[u64]) -> CappedRecord3<{ MAX_SIZE }> {
    CappedRecord3::from((
        r,
        UnpackedRecordIn3 {
            z892: <bool as Probe>::make(ids[0]),
            z891: <vtypes::Tracked as Probe>::make(ids[1]),
            z890: <[u32; 3] as Probe>::make(ids[2]),
            z889: <vtypes::A16 as Probe>::make(ids[3]),
        },
    ))
}

fn main() {
    let r2: CappedRecord2<{ MAX_SIZE }> = CappedRecord2::new(UnpackedRecord2 {
        z900: vec![1, 2, 3],
        z899: std::mem::MaybeUninit::new(7),
        z898: <vtypes::Tracked as Probe>::make(1),
        z897: <[vtypes::Tracked; 2] as Probe>::make(2),
        z896: std::mem::MaybeUninit::new(9),
        z895: vec![4, 5],
        z894: (),
        z893: <vtypes::Tracked as Probe>::make(3),
    });
    let ids: Vec<u64> = std::env::args().skip(1).filter_map(|a| a.parse().ok()).chain([23, 24, 25, 26]).take(4).collect();
    let r3 = convert(r2, &ids);
    println!("z895 = {:?}, z892 = {:?}, z890 = {:?}, z889 = {:?}", r3.z895(), r3.z892(), r3.z890(), r3.z889());
}
