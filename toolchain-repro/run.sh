#!/bin/bash
# Builds and runs the reproduction in the three ways described in README.md.
cd "$(dirname "$0")"
export CARGO_NET_OFFLINE=true
T=/verif/work/target-toolchain-repro
cargo build --offline -q && $T/debug/toolchain_repro; echo "unoptimised: exit $?"
cargo build --offline -q --release && $T/release/toolchain_repro; echo "optimised: exit $? (139 = SIGSEGV)"
MIRIFLAGS="-Zmiri-symbolic-alignment-check" cargo +nightly miri run --offline -q; echo "Miri: exit $?"
