#!/usr/bin/env python3
"""Pre-builds what the quick checks share (called by setup.sh): harness binaries, the probe
dependencies, the generated-driver crate of the default seed, and the Miri builds."""
import os
import sys

sys.path.insert(0, os.path.dirname(os.path.abspath(__file__)))
import common
import props_gen
import props_probe


def main():
    seed = int(os.environ.get("VERIF_SEED", "1"))
    for pkg, prof in (("layoutmon", "fastdebug"), ("layoutmon", "release"), ("vecmon", "dev"), ("vecmon", "release"), ("vecmon", "devabort"), ("vecmon", "relabort")):
        common.cargo_build(pkg, prof)
        print("built", pkg, prof, flush=True)
    b, feats = common.cargo_build_all_features("layoutmon", "fastdebug")
    print("built layoutmon with the cargo features of truc:", feats, flush=True)
    props_probe.probe_deps()
    print("built probe dependencies", flush=True)
    ctx = common.Ctx("C04", "quick", seed)
    props_gen.init(ctx)
    d, manifest, binaries = props_gen.prepare(ctx, props_gen.combos(ctx))
    print("built generated-driver crate:", d, flush=True)
    try:
        common.miri_prepare("vecmon")
        env = dict(common.ENV)
        env["MIRIFLAGS"] = props_gen.SB
        env["CARGO_TARGET_DIR"] = props_gen.target_dir(ctx)
        common.sh(["cargo", "+nightly", "miri", "run", "--offline", "-q", "--", "--episodes", "0", "--modules", "none"], cwd=d, env=env, timeout=3600)
        print("built Miri targets", flush=True)
        env = dict(common.ENV)
        env["RUSTFLAGS"] = "-Zsanitizer=address -Cforce-frame-pointers=yes"
        env["CARGO_TARGET_DIR"] = os.path.join(common.WORK, "target-gendrv-asan-quick")
        common.sh(["cargo", "+nightly", "build", "--offline", "--target", "x86_64-unknown-linux-gnu"], cwd=d, env=env, timeout=3600)
        env["CARGO_TARGET_DIR"] = os.path.join(common.WORK, "target-asan")
        common.sh(["cargo", "+nightly", "build", "--offline", "-p", "vecmon", "--target", "x86_64-unknown-linux-gnu"], cwd=common.HARNESS, env=env, timeout=1800)
        print("built AddressSanitizer targets", flush=True)
    except common.Inconclusive as e:
        print("Miri pre-build skipped:", e)
    # the evidence file written by Ctx's constructor side effects is not wanted
    try:
        os.remove(os.path.join(common.EVIDENCE, "C04.json"))
    except FileNotFoundError:
        pass


if __name__ == "__main__":
    main()
