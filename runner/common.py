"""Shared runner machinery: builds, sharded sub-runs with a watchdog, known findings, evidence."""
import fcntl
import hashlib
import json
import os
import subprocess
import sys
import time
from concurrent.futures import ThreadPoolExecutor

VERIF = os.path.dirname(os.path.dirname(os.path.abspath(__file__)))
HARNESS = os.path.join(VERIF, "harness")
WORK = os.path.join(VERIF, "work")
TARGET = os.path.join(WORK, "target")
REPLAYS = os.path.join(VERIF, "replays")
EVIDENCE = os.path.join(VERIF, "evidence")
REPO = "/repo"
NCPU = os.cpu_count() or 8

ENV = dict(os.environ)
ENV["CARGO_NET_OFFLINE"] = "true"
ENV.setdefault("CARGO_TERM_COLOR", "never")


class Inconclusive(Exception):
    pass


def sh(cmd, cwd=None, timeout=None, env=None, stdin=None):
    """Runs a command, returns (exit status or None on timeout, stdout, stderr)."""
    try:
        p = subprocess.run(cmd, cwd=cwd, env=env or ENV, timeout=timeout, input=stdin,
                           stdout=subprocess.PIPE, stderr=subprocess.PIPE, text=True, errors="replace")
        return p.returncode, p.stdout, p.stderr
    except subprocess.TimeoutExpired as e:
        out = e.stdout.decode(errors="replace") if isinstance(e.stdout, bytes) else (e.stdout or "")
        err = e.stderr.decode(errors="replace") if isinstance(e.stderr, bytes) else (e.stderr or "")
        return None, out, err


class Lock:
    def __init__(self, name):
        os.makedirs(WORK, exist_ok=True)
        self.path = os.path.join(WORK, name + ".lock")

    def __enter__(self):
        self.f = open(self.path, "w")
        fcntl.flock(self.f, fcntl.LOCK_EX)
        return self

    def __exit__(self, *a):
        fcntl.flock(self.f, fcntl.LOCK_UN)
        self.f.close()


def truc_features():
    """Non-default cargo features of the `truc` crate in /repo's working tree (read with
    `cargo metadata`, so that nothing here names them)."""
    rc, out, err = sh(["cargo", "metadata", "--offline", "--no-deps", "--format-version", "1"], cwd=REPO, timeout=300)
    if rc != 0:
        return []
    try:
        pk = [p for p in json.loads(out)["packages"] if p["name"] == "truc"][0]
    except Exception:
        return []
    return sorted(f for f in pk.get("features", {}) if f != "default")


def cargo_build_all_features(package, profile, timeout=1800):
    """The harness package with every cargo feature of truc switched on, in a target directory
    of its own. Returns (binary, features) or (None, []) when truc has no optional feature."""
    feats = truc_features()
    if not feats:
        return None, []
    env = dict(ENV)
    env["CARGO_TARGET_DIR"] = os.path.join(WORK, "target-allfeatures")
    cmd = ["cargo", "build", "--offline", "-p", package, "--profile", profile, "--features", ",".join("truc/" + f for f in feats)]
    with Lock("cargo-harness-allfeatures"):
        rc, out, err = sh(cmd, cwd=HARNESS, env=env, timeout=timeout)
    if rc != 0:
        tail = "\n".join((err or "").splitlines()[-25:])
        raise Inconclusive("build of %s with the features %s of truc failed or timed out:\n%s" % (package, feats, tail))
    return os.path.join(env["CARGO_TARGET_DIR"], profile, package), feats


def cargo_build(package, profile, features=None, cwd=HARNESS, toolchain=None, extra=None, timeout=1800):
    """Builds a harness package against /repo's working tree. Returns the binary path.
    A build failure is inconclusive for the property under check (the tree does not compile or
    the harness is broken), never a violation."""
    cmd = ["cargo"]
    if toolchain:
        cmd.append("+" + toolchain)
    cmd += ["build", "--offline", "-p", package]
    if profile == "dev":
        prof_dir = "debug"
    else:
        cmd += ["--profile", profile]
        prof_dir = profile
    if features:
        cmd += ["--features", ",".join(features)]
    if extra:
        cmd += extra
    with Lock("cargo-harness"):
        rc, out, err = sh(cmd, cwd=cwd, timeout=timeout)
    if rc != 0:
        tail = "\n".join((err or "").splitlines()[-25:])
        raise Inconclusive("build of %s (%s) failed or timed out:\n%s" % (package, profile, tail))
    return os.path.join(TARGET, prof_dir, package)


def load_known():
    path = os.path.join(VERIF, "known_findings.json")
    try:
        return json.load(open(path)).get("known", [])
    except Exception:
        return []


class Ctx:
    def __init__(self, pid, tier, seed):
        self.pid = pid
        self.tier = tier
        self.seed = seed
        self.quick = tier == "quick"
        self.evaluations = 0
        self.distinct = 0
        self.distinct_groups = {}   # kind -> {label: n}; same cases re-run in another build are not counted twice
        self.rule = ""
        self.samples = []
        self.counters = {}
        self.subruns = []
        self.exhaustive_subruns = []
        self.assumptions = []
        self.violations = []      # dicts: kind, detail, signature, replay (obj)
        self.inconclusive = []
        self.notes = []           # things a reader should know that change no verdict
        self.level = "exploration"
        self.exhaustive = False
        os.makedirs(REPLAYS, exist_ok=True)
        os.makedirs(EVIDENCE, exist_ok=True)
        os.makedirs(os.path.join(WORK, "out"), exist_ok=True)
        # the evidence of a previous run must never survive a run that dies
        try:
            os.remove(os.path.join(EVIDENCE, pid + ".json"))
        except FileNotFoundError:
            pass

    # ---- helpers -------------------------------------------------------------------------
    def outpath(self, name):
        return os.path.join(WORK, "out", "%s-%s-%d-%s" % (self.pid, self.tier, self.seed, name))

    def count(self, key, n=1):
        self.counters[key] = self.counters.get(key, 0) + n

    def merge_counters(self, d, prefix=""):
        for k, v in d.items():
            if isinstance(v, bool):
                continue
            if isinstance(v, (int, float)):
                if k.startswith("max_"):
                    self.counters[prefix + k] = max(self.counters.get(prefix + k, 0), v)
                else:
                    self.count(prefix + k, v)
            elif isinstance(v, dict):
                self.merge_counters(v, prefix + k + ".")

    def add_distinct(self, kind, label, n):
        """Distinct non-trivial cases of one kind observed in one configuration. The same cases
        run again in another configuration (build profile, interpreter) are the same cases: per
        kind the largest configuration counts; different kinds of cases add up."""
        g = self.distinct_groups.setdefault(kind, {})
        g[label] = g.get(label, 0) + n

    def violation(self, kind, detail, signature, replay):
        self.violations.append({"kind": kind, "detail": detail, "signature": signature, "replay": replay})

    def run_parallel(self, jobs, timeout, max_workers=None):
        """jobs: list of (label, cmd, cwd, env). Returns list of (label, rc, stdout, stderr, secs)."""
        def one(job):
            label, cmd, cwd, env = job
            t0 = time.time()
            rc, out, err = sh(cmd, cwd=cwd, timeout=timeout, env=env)
            return (label, rc, out, err, time.time() - t0)
        with ThreadPoolExecutor(max_workers=max_workers or NCPU) as ex:
            return list(ex.map(one, jobs))

    def run_layoutmon(self, binary, mode, shards, args_for_shard, timeout):
        """Runs `layoutmon <mode>` in shards, merges the JSON reports. Returns the reports."""
        jobs = []
        for s in range(shards):
            out = self.outpath("%s-%d.json" % (mode, s))
            try:
                os.remove(out)
            except FileNotFoundError:
                pass
            cmd = [binary, mode, "--seed", str(self.seed), "--shard", str(s), "--nshards", str(shards), "--out", out]
            cmd += [str(a) for a in args_for_shard(s)]
            jobs.append((out, cmd, None, None))
        reports = []
        self.last_outs = [j[0] for j in jobs]
        self.last_binary = binary
        for (out, rc, so, se, secs) in self.run_parallel(jobs, timeout):
            if rc is None:
                self.inconclusive.append("sub-run %s timed out after %ds" % (os.path.basename(out), timeout))
                continue
            if rc != 0 or not os.path.exists(out):
                self.inconclusive.append("sub-run %s exited with status %s: %s" % (os.path.basename(out), rc, (se or "")[-400:]))
                continue
            reports.append(json.load(open(out)))
        return reports

    def count_distinct(self, binary, outs, prop_key):
        """Distinct non-trivial cases across shards: union of the digest files the shards wrote."""
        files = [o + ".digests." + prop_key for o in outs]
        files = [f for f in files if os.path.exists(f)]
        if not files:
            return 0
        rc, out, err = sh([binary, "count-distinct", "--files", ",".join(files)], timeout=600)
        for f in files:
            os.remove(f)
        if rc != 0:
            self.inconclusive.append("count-distinct failed: %s" % (err or "")[-200:])
            return 0
        return int(out.strip())

    def absorb_reports(self, reports, prop_key=None, binary=None, outs=None, label="run"):
        """Adds evaluations / counters / samples / this property's violations of layoutmon reports."""
        prop_key = prop_key or self.pid
        if binary and outs:
            self.add_distinct("histories", label, self.count_distinct(binary, outs, prop_key))
        for r in reports:
            self.evaluations += r.get("evaluations", 0)
            if not (binary and outs):
                self.add_distinct("histories", label, r.get("distinct_nontrivial", {}).get(prop_key, 0))
            self.merge_counters(r.get("stats", {}))
            for s in r.get("samples", []):
                if len(self.samples) < 8:
                    self.samples.append(s)
            sw = r.get("exhaustive_sweep")
            if sw:
                self.exhaustive_subruns.append(sw)
            other = {}
            for v in r.get("violations", []):
                if v["property"] == self.pid:
                    sig = "%s %s %s" % (self.pid, v["kind"], v.get("history_text", ""))
                    self.violation(v["kind"], v["detail"], sig, {"history": v.get("history"), "history_text": v.get("history_text")})
                else:
                    other[v["property"]] = other.get(v["property"], 0) + 1
            for k, n in other.items():
                self.count("violations_of_other_properties_seen." + k, n)

    # ---- verdict -------------------------------------------------------------------------
    def finish(self, wall, spec):
        if self.distinct_groups:
            self.distinct += sum(max(g.values()) for g in self.distinct_groups.values())
        known = [k for k in load_known() if k.get("property") == self.pid]
        new = []
        known_hit = {}
        for v in self.violations:
            hit = None
            for k in known:
                if k["signature"] == v["signature"]:
                    hit = k
                    break
            if hit:
                known_hit.setdefault(hit["signature"], hit)
            else:
                new.append(v)
        # dedupe new violations by signature
        seen = set()
        uniq = []
        for v in new:
            if v["signature"] in seen:
                continue
            seen.add(v["signature"])
            uniq.append(v)
        status = 0
        lines = []
        for sig, k in sorted(known_hit.items()):
            lines.append("KNOWN-FINDING: property=%s %s" % (self.pid, k.get("what", sig)))
        for i, v in enumerate(uniq[:25]):
            h = hashlib.sha1(v["signature"].encode()).hexdigest()[:10]
            path = os.path.join(REPLAYS, "%s-%s.json" % (self.pid, h))
            with open(path, "w") as f:
                json.dump({"property": self.pid, "tier": self.tier, "seed": self.seed, "kind": v["kind"],
                           "detail": v["detail"], "signature": v["signature"], **(v["replay"] or {})}, f, indent=1)
            lines.append("VIOLATION property=%s replay=%s" % (self.pid, path))
            lines.append("  kind=%s %s" % (v["kind"], v["detail"][:600]))
            status = 1
        if status == 0 and self.inconclusive:
            status = 2
        if status == 0 and self.evaluations == 0:
            self.inconclusive.append("the monitors observed nothing")
            status = 2
        for msg in self.inconclusive:
            lines.append("INCONCLUSIVE property=%s %s" % (self.pid, msg.replace("\n", " | ")[:1500]))
        coverage = {
            "evaluations": int(self.evaluations),
            "distinct_nontrivial": int(self.distinct),
            "rule": self.rule or spec.get("rule", ""),
            "samples": self.samples[:8] or ["<none>"],
            "exhaustive": bool(self.exhaustive),
            "observed": self.counters,
            "subruns": self.subruns,
            "verdict": {0: "held on what was observed", 1: "violated", 2: "inconclusive"}[status],
            "known_findings_hit": sorted(known_hit),
            "inconclusive_reasons": self.inconclusive,
        }
        if self.notes:
            coverage["notes"] = self.notes
        if self.exhaustive_subruns:
            coverage["exhaustive_subruns"] = self.exhaustive_subruns
        evidence = {
            "property_id": self.pid,
            "tier": self.tier,
            "seed": self.seed,
            "level": spec.get("level", self.level),
            "coverage": coverage,
            "assumptions": self.assumptions or spec.get("assumptions", []),
            "wall_s": round(wall, 2),
            "violations": len(uniq),
        }
        with open(os.path.join(EVIDENCE, self.pid + ".json"), "w") as f:
            json.dump(evidence, f, indent=1)
            f.write("\n")
        for l in lines:
            print(l)
        for n in self.notes:
            print("NOTE property=%s %s" % (self.pid, n.replace("\n", " | ")[:1200]))
        print("%s %s seed=%d: %s; %d evaluations, %d distinct non-trivial, %.1fs" % (
            self.pid, self.tier, self.seed, coverage["verdict"], self.evaluations, self.distinct, wall))
        return status


def replay(pid, path, spec):
    fn = spec.get("replay")
    if fn is None:
        print("no replay support for %s" % pid)
        return 2
    return fn(path)


# ---- interpreters and sanitizers -----------------------------------------------------------

MIRI_BASE_FLAGS = "-Zmiri-symbolic-alignment-check"


def classify_miri(stderr):
    """Returns (kind, first error line, first in-repo / generated frame) or None when Miri
    reported nothing."""
    lines = (stderr or "").splitlines()
    for i, l in enumerate(lines):
        if "Undefined Behavior" in l or "memory leaked" in l or l.startswith("error: unsupported operation") \
                or "error: abnormal termination" in l or "error: deadlock" in l or "error: the evaluated program" in l:
            if "unsupported operation" in l:
                return ("unsupported", l.strip(), "")
            frame = ""
            for m in lines[i:i + 60]:
                ms = m.strip()
                if ("/repo/" in ms or "/verif/" in ms) and ("-->" in ms or "at " in ms):
                    frame = ms
                    if "/repo/" in ms:
                        break
            return ("ub" if "Undefined Behavior" in l else "leak" if "leaked" in l else "abort", l.strip(), frame)
    return None


def norm_miri(line):
    """Strips run-dependent tags and allocation ids from a Miri error line."""
    import re
    return re.sub(r"<\d+>|alloc\d+|0x[0-9a-f]+", "#", line)


def miri_prepare(package, cwd=HARNESS, flags=""):
    """Builds `package` for Miri once (a run with arguments that do nothing)."""
    env = dict(ENV)
    env["MIRIFLAGS"] = (MIRI_BASE_FLAGS + " " + flags).strip()
    with Lock("cargo-miri"):
        rc, out, err = sh(["cargo", "+nightly", "miri", "run", "--offline", "-p", package, "--", "noop"],
                          cwd=cwd, env=env, timeout=1800)
    if "Finished" not in (err or "") and "Running" not in (err or ""):
        raise Inconclusive("Miri build of %s failed: %s" % (package, "\n".join((err or "").splitlines()[-20:])))


def miri_job(package, args, flags="", cwd=HARNESS):
    env = dict(ENV)
    env["MIRIFLAGS"] = (MIRI_BASE_FLAGS + " " + flags).strip()
    args = [str(a) for a in args]
    return (" ".join(args), ["cargo", "+nightly", "miri", "run", "--offline", "-q", "-p", package, "--"] + [str(a) for a in args], cwd, env)


def parse_json_tail(text):
    """Last JSON object printed on stdout."""
    text = text or ""
    j = text.rfind("}")
    if j < 0:
        return None
    depth = 0
    for i in range(j, -1, -1):
        if text[i] == "}":
            depth += 1
        elif text[i] == "{":
            depth -= 1
            if depth == 0:
                try:
                    return json.loads(text[i:j + 1])
                except Exception:
                    return None
    return None
