"""Engine A properties: C01 C02 C03 C12 C13 C19 C20 (builder / layout / definition monitors)."""
import json
import os

import common
from common import Inconclusive

NS = 16  # shards


def layoutmon():
    return common.cargo_build("layoutmon", "fastdebug")


def layoutmon_release():
    return common.cargo_build("layoutmon", "release")


def replay_history(path):
    binary = layoutmon()
    rc, out, err = common.sh([binary, "replay", "--file", path], timeout=600)
    print(out, end="")
    return 0 if rc == 0 else 1


def layout_workload(ctx, generate_every):
    """The shared C01/C02/C03 workload: directed + seeded random + small-scope sweep."""
    binary = layoutmon()
    if ctx.quick:
        count, sweep, sweep_alpha, timeout = 40_000, 2, 7, 900
    else:
        count, sweep, sweep_alpha, timeout = 1_500_000, 3, 5, 5400
    reports = ctx.run_layoutmon(
        binary, "layout", NS,
        lambda s: ["--count", count, "--generate-every", generate_every, "--sweep", sweep, "--sweep-alpha", sweep_alpha],
        timeout)
    ctx.subruns.append({"engine": "layoutmon layout", "profile": "fastdebug (optimised, debug assertions and overflow checks on)",
                        "shards": NS, "random_histories_per_shard": count,
                        "sweep": {"max_variants": sweep, "max_adds_per_variant": 2, "alphabet_size": sweep_alpha}})
    ctx.absorb_reports(reports, binary=ctx.last_binary, outs=ctx.last_outs)
    release_pass(ctx, "layout", ["--count", count // 4, "--generate-every", generate_every, "--sweep", 0, "--sweep-alpha", sweep_alpha], timeout)


def release_pass(ctx, mode, args, timeout):
    """The same monitors over a smaller sample with truc built the way a release build builds
    it for a build script: optimised, no debug assertions, no overflow checks."""
    binary = layoutmon_release()
    reports = ctx.run_layoutmon(binary, mode, NS, lambda s: args, timeout)
    ctx.subruns.append({"engine": "layoutmon " + mode, "profile": "release (truc at opt-level 3, debug assertions and overflow checks off)",
                        "shards": NS, "arguments": " ".join(str(a) for a in args)})
    ctx.absorb_reports(reports, binary=ctx.last_binary, outs=ctx.last_outs, label="release")


def run_c01(ctx):
    layout_workload(ctx, 0)
    ctx.exhaustive = False


def run_c02(ctx):
    layout_workload(ctx, 40 if ctx.quick else 400)
    import props_gen
    props_gen.runtime_half(ctx, "C02")


def run_c03(ctx):
    layout_workload(ctx, 40 if ctx.quick else 400)
    import props_gen
    props_gen.runtime_half(ctx, "C03")


def run_c12(ctx):
    binary = layoutmon()
    count = 15_000 if ctx.quick else 250_000
    reports = ctx.run_layoutmon(binary, "builder", NS, lambda s: ["--count", count], 900 if ctx.quick else 5400)
    ctx.subruns.append({"engine": "layoutmon builder", "shards": NS, "random_histories_per_shard": count,
                        "builders": ["native x 4 strategies", "generic x append_data / append_data_reverse"]})
    ctx.absorb_reports(reports, binary=ctx.last_binary, outs=ctx.last_outs)
    release_pass(ctx, "builder", ["--count", count // 4], 900 if ctx.quick else 5400)


def run_c13(ctx):
    # panic freedom of Display / max_size / max_type_align / generate on every history, in a
    # profile with overflow checks and in a plain release profile (overflow behaviour differs)
    count = 12_000 if ctx.quick else 400_000
    every = 4 if ctx.quick else 16
    for profile, binary in (("fastdebug", layoutmon()), ("release", layoutmon_release())):
        reports = ctx.run_layoutmon(binary, "layout", NS,
                                    lambda s: ["--count", count, "--generate-every", every, "--sweep", 2 if profile == "fastdebug" else 0, "--sweep-alpha", 7],
                                    900 if ctx.quick else 5400)
        ctx.subruns.append({"engine": "layoutmon layout", "profile": profile, "shards": NS,
                            "random_histories_per_shard": count, "generate_every_nth_digest": every})
        ctx.absorb_reports(reports, binary=ctx.last_binary, outs=ctx.last_outs, label=profile)
    import props_gen
    props_gen.compile_half(ctx)


def run_c19(ctx):
    binary = layoutmon()
    count = 600 if ctx.quick else 20_000
    # three separately started processes per shard: same seed, one of them perturbed
    outs = {}
    rel = layoutmon_release()
    rcount = max(count // 4, 1)
    for variant, perturb, exe, n in (("p0", 0, binary, count), ("p1", 0, binary, count), ("p2", 3, binary, count),
                                     ("r0", 0, rel, rcount), ("r1", 3, rel, rcount)):
        jobs = []
        for s in range(NS):
            out = ctx.outpath("determinism-%s-%d.json" % (variant, s))
            if os.path.exists(out):
                os.remove(out)
            env = dict(common.ENV)
            if perturb:
                env["VERIF_EXTRA_ENV_%d" % s] = "x" * (100 + 37 * s)
                env["MALLOC_PERTURB_"] = str(17 + s)
                env["MALLOC_ARENA_MAX"] = "1"
            jobs.append((out, [exe, "determinism", "--seed", str(ctx.seed), "--shard", str(s), "--count", str(n),
                               "--perturb", str(perturb), "--out", out], None, env))
        for (out, rc, so, se, secs) in ctx.run_parallel(jobs, 900 if ctx.quick else 5400):
            if rc != 0 or not os.path.exists(out):
                ctx.inconclusive.append("determinism sub-run %s: status %s %s" % (os.path.basename(out), rc, (se or "")[-300:]))
                continue
            outs.setdefault(variant, {})[out.rsplit("-", 1)[1]] = json.load(open(out))
    ctx.absorb_reports(list(outs.get("p0", {}).values()))
    ctx.absorb_reports(list(outs.get("r0", {}).values()), label="release")
    for variant in ("p1", "p2", "r1"):
        base = outs.get("r0" if variant == "r1" else "p0", {})
        for shard, rep in outs.get(variant, {}).items():
            ctx.merge_counters({"cross_process_histories_compared": len(rep["extra"]["digests"])})
            # in-process violations of the other processes count too
            for v in rep.get("violations", []):
                if v["property"] == "C19":
                    ctx.violation(v["kind"], v["detail"], "C19 %s %s" % (v["kind"], v["history_text"]),
                                  {"history": v["history"], "history_text": v["history_text"]})
            b = base.get(shard)
            if b is None:
                continue
            if len(b["extra"]["digests"]) != len(rep["extra"]["digests"]):
                ctx.inconclusive.append("digest lists of different length for shard %s" % shard)
                continue
            for i, (x, y) in enumerate(zip(b["extra"]["digests"], rep["extra"]["digests"])):
                if x != y:
                    ctx.violation("replay-differs-across-processes",
                                  "history #%d of shard %s: process p0 digest %s, process %s digest %s" % (i, shard, x, variant, y),
                                  "C19 cross-process %s" % x.split()[0],
                                  {"shard": shard, "index": i, "history_digest": x.split()[0],
                                   "note": "re-run `layoutmon determinism --seed %d --shard %s --count %d` (%s build) in two processes and compare entry %d" % (ctx.seed, shard, len(b["extra"]["digests"]), "release" if variant == "r1" else "fastdebug", i)})
    ctx.subruns.append({"engine": "layoutmon determinism", "processes_per_shard": "3 (debug-assertions build of truc) + 2 (release build of truc, a quarter of the histories)", "shards": NS,
                        "histories_per_shard": count, "perturbed_process": "p2: ballast allocations, extra environment, MALLOC_PERTURB_, single arena"})


def run_c20(ctx):
    binary = layoutmon()
    count = 4_000 if ctx.quick else 250_000
    reports = ctx.run_layoutmon(binary, "replaydef", NS, lambda s: ["--count", count], 900 if ctx.quick else 5400)
    ctx.subruns.append({"engine": "layoutmon replaydef", "shards": NS, "source_histories_per_shard": count,
                        "targets": ["native simple", "native basic", "native append_data", "native append_data_reverse", "generic append_data", "generic append_data_reverse"]})
    ctx.absorb_reports(reports, binary=ctx.last_binary, outs=ctx.last_outs)
    release_pass(ctx, "replaydef", ["--count", count // 4], 900 if ctx.quick else 5400)


def run_c18(ctx):
    binary = layoutmon()
    count = 3_000 if ctx.quick else 200_000
    reports = ctx.run_layoutmon(binary, "resolver", NS, lambda s: ["--count", count], 900 if ctx.quick else 5400)
    ctx.subruns.append({"engine": "layoutmon resolver", "shards": NS, "differential_histories_per_shard": count,
                        "synthetic_tables": ["32-bit target", "odd sizes and alignments", "padded and doubly aligned"],
                        "entry_points": ["typed", "typed allow-uninit", "dynamic (3 spellings)", "override (any subset of fields)", "copy"],
                        "standard_table": "every member of add_std_types (418) + custom registrations, 4 spellings each, before and after the JSON round trip; unregistered type must not be answered"})
    ctx.absorb_reports(reports, binary=ctx.last_binary, outs=ctx.last_outs)
    release_pass(ctx, "resolver", ["--count", count // 4], 900 if ctx.quick else 5400)
    # and with every cargo feature of truc switched on (they add members to the type tables)
    allf, feats = common.cargo_build_all_features("layoutmon", "fastdebug")
    if allf:
        reports = ctx.run_layoutmon(allf, "resolver", NS, lambda s: ["--count", count // 4], 900 if ctx.quick else 5400)
        ctx.subruns.append({"engine": "layoutmon resolver", "truc_built_with_features": feats, "shards": NS, "differential_histories_per_shard": count // 4})
        ctx.absorb_reports(reports, binary=ctx.last_binary, outs=ctx.last_outs, label="all-features")


ASSUME_A = ["the reference model in harness/layoutmon/src/hist.rs states the builder contract correctly",
            "histories are finite samples (plus a complete small-scope sweep where stated); nothing is claimed beyond them",
            "alignments are powers of two between 1 and 16, as in the property's quantifier"]

CHECKS = {
    "C01": {"run": run_c01, "replay": replay_history, "level": "exploration", "assumptions": ASSUME_A,
            "rule": "histories = directed shapes + seeded random (3 shape alphabets, uniform and per-variant strategy mixes, orphans, name re-use) + complete sweep over a small scope; a case is one history (distinct by FNV-64 of its canonical text); non-trivial = at least 2 variants AND at least one new datum was placed below the end of the carried-over data (a gap was filled)"},
    "C02": {"run": run_c02, "replay": replay_history, "level": "exploration", "assumptions": ASSUME_A,
            "rule": "same histories as C01; non-trivial = at least 2 variants and a close that lists at least 2 non-zero-size data; the run-time half adds generated modules executed by the drivers (addresses of every accessor)"},
    "C03": {"run": run_c03, "replay": replay_history, "level": "exploration", "assumptions": ASSUME_A,
            "rule": "same histories as C01; offsets are snapshotted at the close that places a datum and compared at every later close and on the definition; non-trivial = at least 2 variants and at least one datum carried over into a later close; the generated half compares size_of/align_of of all record types of sampled modules"},
    "C12": {"run": run_c12, "replay": replay_history, "level": "exploration", "assumptions": ASSUME_A,
            "rule": "hostile request sequences (name pool of 2..6, removal of live / pending / stale / never-issued / twice-removed ids, repeated closes, unclosed endings) on the native and the generic builder, compared with the reference model after every request; non-trivial = at least one request was rejected and at least one variant exists"},
    "C13": {"run": run_c13, "replay": replay_history, "level": "exploration", "assumptions": ASSUME_A,
            "rule": "every history of the C01 workload is built, displayed and measured; generate() runs for 4 fragment selections on a digest-selected subset; non-trivial = definition built and (has an orphan datum, a zero-size datum, at least 3 variants, or was generated); the compile half compiles sampled modules with every fragment selection"},
    "C18": {"run": run_c18, "replay": None, "level": "exploration", "assumptions": ASSUME_A,
            "rule": "differential histories: the same requests go (A) through the typed / allow-uninit / dynamic / override / copy entry points of a builder whose resolver is a synthetic table that disagrees with the host, and (B) through explicit numbers on a host-resolver builder; attached type information after every add and all offsets at the end must be equal; plus the complete standard table (every member, 4 spellings, JSON round trip); non-trivial = the history uses at least 2 different entry points"},
    "C19": {"run": run_c19, "replay": replay_history, "level": "exploration", "assumptions": ASSUME_A,
            "rule": "each history is replayed twice in one process (allocator noise in between) and in three separately started processes (one perturbed); offsets, Display text, capacity and the generated text of 4 fragment selections are compared; non-trivial = at least 2 variants"},
    "C20": {"run": run_c20, "replay": replay_history, "level": "exploration", "assumptions": ASSUME_A,
            "rule": "source definitions from the layout generator and from hostile-valid histories (names re-used, same name replaced within one transition, cancelled data) replayed through convert_record_definition into 4 native and 2 generic targets; non-trivial = source has at least 2 variants"},
}
