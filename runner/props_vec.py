"""Engine C properties: C08 C09 C10 (in-place vector conversion)."""
import json
import os

import common

MODE = {"C08": "convert", "C09": "fail", "C10": "refuse"}


def absorb(ctx, report, label):
    ctx.evaluations += report.get("evaluations", 0)
    ctx.add_distinct("cases", label, report.get("distinct_nontrivial", 0))
    ctx.merge_counters(report.get("counters", {}), label + ".")
    for s in report.get("samples", []):
        if len(ctx.samples) < 8:
            ctx.samples.append("[%s] %s" % (label, s))
    for v in report.get("violations", []):
        ctx.violation(v["kind"], "[%s] %s | case: %s" % (label, v["detail"], v["case"]),
                      "%s %s %s" % (ctx.pid, v["kind"], v["case"]), {"case": v["case"], "engine": "vecmon", "run": label})
    extra = report.get("violations_total", 0) - len(report.get("violations", []))
    if extra > 0:
        ctx.count(label + ".violations_not_listed", extra)


def native(ctx, mode, max_len, random, max_random_len):
    # the success path never unwinds: it is also run in programs built with panic=abort
    for profile in ("dev", "release") + (("devabort", "relabort") if mode == "convert" else ()):
        binary = common.cargo_build("vecmon", profile)
        jobs = []
        nsh = 8
        for s in range(nsh):
            jobs.append(("%s-%d" % (profile, s), [binary, mode, "--seed", str(ctx.seed), "--max-len", str(max_len), "--random", str(random),
                                                 "--max-random-len", str(max_random_len), "--shard", str(s), "--nshards", str(nsh)], None, None))
        for (label, rc, out, err, secs) in ctx.run_parallel(jobs, 1800):
            rep = common.parse_json_tail(out)
            if rc is None:
                ctx.inconclusive.append("vecmon %s %s timed out" % (mode, label))
            elif rc != 0 or rep is None:
                # the monitors never abort by themselves: a crash of the driver is an event of its own
                ctx.violation("driver-crashed", "vecmon %s %s exited with status %s: %s" % (mode, label, rc, (err or "")[-600:]),
                              "%s driver-crashed %s" % (ctx.pid, profile), {"cmd": "vecmon %s" % mode, "stderr": (err or "")[-2000:]})
            else:
                absorb(ctx, rep, "native-" + profile)
        ctx.subruns.append({"engine": "vecmon " + mode, "profile": profile, "exhaustive_up_to_length": max_len,
                            "random_cases_per_type_pair": random, "max_random_length": max_random_len})


def miri(ctx, mode, max_len, flags, label):
    common.miri_prepare("vecmon", flags=flags)
    nsh = 15
    jobs = [common.miri_job("vecmon", [mode, "--seed", ctx.seed, "--max-len", max_len, "--random", 2, "--max-random-len", 9,
                                       "--shard", s, "--nshards", nsh], flags=flags) for s in range(nsh)]
    clean = 0
    for (lab, rc, out, err, secs) in ctx.run_parallel(jobs, 3600):
        finding = common.classify_miri(err)
        rep = common.parse_json_tail(out)
        if rc is None:
            ctx.inconclusive.append("Miri run `%s` timed out" % lab)
            continue
        if finding and finding[0] != "unsupported":
            ctx.violation("miri-" + finding[0], "[%s] %s | %s | run: vecmon %s" % (label, finding[1], finding[2], lab),
                          "%s miri %s %s" % (ctx.pid, common.norm_miri(finding[1])[:160], finding[2][:160]),
                          {"cmd": "cd harness && MIRIFLAGS='%s %s' cargo +nightly miri run -p vecmon -- %s" % (common.MIRI_BASE_FLAGS, flags, lab),
                           "stderr": (err or "")[-3000:]})
            continue
        if rc != 0 or rep is None:
            ctx.inconclusive.append("Miri run `%s` ended with status %s without a report: %s" % (lab, rc, (err or "")[-300:]))
            continue
        clean += 1
        absorb(ctx, rep, label)
    ctx.count(label + ".processes_clean", clean)
    ctx.subruns.append({"engine": "vecmon " + mode, "interpreter": "Miri " + (flags or "(Stacked Borrows)") + " " + common.MIRI_BASE_FLAGS,
                        "leak_check": True, "exhaustive_up_to_length": max_len, "processes": nsh})


def valgrind(ctx, mode, max_len):
    binary = common.cargo_build("vecmon", "release")
    nsh = 8
    jobs = []
    for s in range(nsh):
        jobs.append(("vg-%d" % s, ["valgrind", "-q", "--error-exitcode=9", "--leak-check=full", "--errors-for-leak-kinds=definite,indirect",
                                   binary, mode, "--seed", str(ctx.seed), "--max-len", str(max_len), "--random", "20", "--max-random-len", "300",
                                   "--shard", str(s), "--nshards", str(nsh)], None, None))
    clean = 0
    for (label, rc, out, err, secs) in ctx.run_parallel(jobs, 3600):
        rep = common.parse_json_tail(out)
        if rc is None:
            ctx.inconclusive.append("valgrind run %s timed out" % label)
        elif rc == 9 or "== Invalid" in (err or "") or "definitely lost" in (err or ""):
            first = [l for l in (err or "").splitlines() if "Invalid" in l or "lost" in l or "free" in l][:1]
            ctx.violation("memcheck", "[valgrind] %s | run: vecmon %s %s" % (first[0] if first else "error", mode, label),
                          "%s memcheck %s" % (ctx.pid, (first[0] if first else "")[12:120]),
                          {"cmd": "valgrind --leak-check=full %s %s --max-len %d" % (binary, mode, max_len), "stderr": (err or "")[-3000:]})
        elif rc != 0 or rep is None:
            ctx.inconclusive.append("valgrind run %s ended with status %s" % (label, rc))
        else:
            clean += 1
            absorb(ctx, rep, "memcheck")
    ctx.count("memcheck.processes_clean", clean)
    ctx.subruns.append({"engine": "vecmon " + mode, "sanitizer": "valgrind memcheck --leak-check=full on the release binary", "exhaustive_up_to_length": max_len})


def asan(ctx, mode, max_len):
    """AddressSanitizer + LeakSanitizer build of vecmon (nightly, -Zsanitizer=address)."""
    env = dict(common.ENV)
    env["RUSTFLAGS"] = "-Zsanitizer=address -Cforce-frame-pointers=yes"
    env["CARGO_TARGET_DIR"] = os.path.join(common.WORK, "target-asan")
    with common.Lock("cargo-harness-asan"):
        rc, out, err = common.sh(["cargo", "+nightly", "build", "--offline", "-p", "vecmon", "--target", "x86_64-unknown-linux-gnu"], cwd=common.HARNESS, env=env, timeout=1800)
    if rc != 0:
        ctx.inconclusive.append("AddressSanitizer build of vecmon failed: %s" % "\n".join((err or "").splitlines()[-6:]))
        return
    binary = os.path.join(env["CARGO_TARGET_DIR"], "x86_64-unknown-linux-gnu", "debug", "vecmon")
    renv = dict(common.ENV)
    renv["ASAN_OPTIONS"] = "detect_leaks=1:halt_on_error=1"
    nsh = 8
    jobs = [("asan-%d" % s, [binary, mode, "--seed", str(ctx.seed), "--max-len", str(max_len), "--random", "40", "--max-random-len", "500", "--shard", str(s), "--nshards", str(nsh)], None, renv)
            for s in range(nsh)]
    clean = 0
    for (label, rc, out, err, secs) in ctx.run_parallel(jobs, 3600):
        rep = common.parse_json_tail(out)
        m = __import__("re").search(r"ERROR: (AddressSanitizer|LeakSanitizer): ([^\n]*)", err or "")
        if rc is None:
            ctx.inconclusive.append("AddressSanitizer run %s timed out" % label)
        elif m:
            what = m.group(2).split(" on address")[0].split(" at pc")[0][:80]
            ctx.violation("asan", "[asan] %s: %s | run: vecmon %s %s" % (m.group(1), what, mode, label), "%s asan %s" % (ctx.pid, what),
                          {"stderr": (err or "")[:5000], "cmd": " ".join(jobs[0][1])})
        elif rc != 0 or rep is None:
            ctx.inconclusive.append("AddressSanitizer run %s ended with status %s" % (label, rc))
        else:
            clean += 1
            absorb(ctx, rep, "asan")
    ctx.count("asan.processes_clean", clean)
    ctx.subruns.append({"engine": "vecmon " + mode, "sanitizer": "AddressSanitizer + LeakSanitizer (nightly -Zsanitizer=address, debug)", "exhaustive_up_to_length": max_len})


def run(ctx):
    mode = MODE[ctx.pid]
    if ctx.pid == "C10":
        native(ctx, mode, 4 if ctx.quick else 8, 0, 0)
        asan(ctx, mode, 4 if ctx.quick else 6)
        miri(ctx, mode, 2 if ctx.quick else 4, "", "miri-sb")
        if not ctx.quick:
            miri(ctx, mode, 3, "-Zmiri-tree-borrows", "miri-tb")
            valgrind(ctx, mode, 4)
        ctx.exhaustive = True
        return
    if ctx.quick:
        native(ctx, mode, 6, 150, 2000)
        asan(ctx, mode, 5)
        miri(ctx, mode, 3, "", "miri-sb")
    else:
        native(ctx, mode, 9, 4000, 3000)
        asan(ctx, mode, 7)
        miri(ctx, mode, 4 if ctx.pid == "C08" else 5, "", "miri-sb")
        miri(ctx, mode, 3, "-Zmiri-tree-borrows", "miri-tb")
        valgrind(ctx, mode, 5)


def replay(path):
    d = json.load(open(path))
    print("case: %s" % d.get("case", d.get("cmd")))
    print("re-run: %s" % d.get("cmd", "./check %s quick (the case is part of the exhaustive enumeration)" % d["property"]))
    return 0


ASSUME = ["the watch in the global allocator sees every deallocation / reallocation of the vector's block (the wrapper forwards to the system allocator)",
          "the converter closures of the harness drop their input and never unwind except where a panic is injected",
          "Miri executes unoptimised MIR; the optimised build is covered by the native release runs and memcheck only"]

CHECKS = {
    "C08": {"run": run, "replay": replay, "level": "exploration", "assumptions": ASSUME,
            "rule": "cases = every length 0..=L x every converted/abandoned pattern x 3 converter kinds (ignore / read / replace the previous output) x spare capacity x both entry points, for 15 element type pairs (plain, heap-owning, zero-size, odd-sized, over-aligned, 256-byte, mixed droppiness), complete for the stated L, plus seeded random long vectors; native debug + release, Miri, memcheck (thorough); distinct by case text; non-trivial = length >= 2 with at least one converted and one abandoned element"},
    "C09": {"run": run, "replay": replay, "level": "fault_enumeration", "assumptions": ASSUME,
            "rule": "fault enumeration: every length 1..=L x every failure position x 4 failure kinds (error return, panic holding the input, panic after dropping the input, panic after building the output) x every converted/abandoned pattern of the preceding elements x both entry points x 15 element type pairs, complete for the stated L, plus seeded random long vectors with spare capacity; distinct by case text; non-trivial = length >= 2 and (an output was produced before the failure or an input remains after it)"},
    "C10": {"run": run, "replay": replay, "level": "exploration", "assumptions": ASSUME,
            "rule": "all 81 ordered pairs of 9 drop-recording element types (sizes 0,4,8,16; alignments 1,4,8,16; zero-size vs non-zero-size; same size with different alignment) x lengths 0..=L x spare capacity x both entry points; the 9 equal pairs are the controls that must be accepted; complete for the stated L; non-trivial = mismatching pair"},
}
