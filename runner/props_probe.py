"""Engine D properties: C11, C14, C17 — the observable is the verdict of the real compiler on
generated programs (compile probes), plus run-time TypeId comparisons for C17."""
import json
import os
import random
import re
import shutil

import common
from common import Inconclusive

DEPS_DIR = os.path.join(common.WORK, "probe-deps")
DEPS_TARGET = os.path.join(common.WORK, "target-probe-deps")


def probe_deps():
    """Builds truc_runtime (hooks off), static_assertions and vtypes as rlibs; returns
    (deps dir, {crate: rlib})."""
    os.makedirs(os.path.join(DEPS_DIR, "src"), exist_ok=True)
    cargo = """[package]
name = "probe_deps"
version = "0.1.0"
edition = "2021"

[workspace]

[dependencies]
vtypes = { path = "/verif/harness/vtypes" }
truc_runtime = { path = "/repo/truc_runtime" }
static_assertions = "1"
serde = "1"
"""
    def put(path, text):
        if not os.path.exists(path) or open(path).read() != text:
            open(path, "w").write(text)
    put(os.path.join(DEPS_DIR, "Cargo.toml"), cargo)
    put(os.path.join(DEPS_DIR, "src", "lib.rs"), "pub fn nothing() {}\n")
    os.makedirs(os.path.join(DEPS_DIR, ".cargo"), exist_ok=True)
    put(os.path.join(DEPS_DIR, ".cargo", "config.toml"), "[net]\noffline = true\n")
    if not os.path.exists(os.path.join(DEPS_DIR, "Cargo.lock")):
        shutil.copy(os.path.join(common.HARNESS, "Cargo.lock"), os.path.join(DEPS_DIR, "Cargo.lock"))
    env = dict(common.ENV)
    env["CARGO_TARGET_DIR"] = DEPS_TARGET
    with common.Lock("probe-deps"):
        rc, out, err = common.sh(["cargo", "build", "--offline", "--message-format=json"], cwd=DEPS_DIR, env=env, timeout=1800)
    if rc != 0:
        raise Inconclusive("probe dependencies do not build: %s" % (err or "")[-600:])
    rlibs = {}
    for line in out.splitlines():
        try:
            m = json.loads(line)
        except Exception:
            continue
        if m.get("reason") == "compiler-artifact":
            name = m["target"]["name"].replace("-", "_")
            for f in m.get("filenames", []):
                if f.endswith(".rlib"):
                    rlibs[name] = f
    for need in ("truc_runtime", "static_assertions", "vtypes"):
        if need not in rlibs:
            raise Inconclusive("rlib of %s not found" % need)
    return os.path.join(DEPS_TARGET, "debug", "deps"), rlibs


# the configurations a crate that includes generated code is compiled in
DEV = ("dev", [])
RELEASE = ("release", ["-C", "opt-level=3", "-C", "debug-assertions=off", "-C", "overflow-checks=off"])


def compile_probe(deps, rlibs, path, outdir, config=DEV):
    base = os.path.basename(path)[:-3]
    cmd = ["rustc", "--edition", "2021", "--crate-type", "lib", "--crate-name", base, "--emit=metadata", "-o", os.path.join(outdir, "%s-%s.rmeta" % (base, config[0])),
           "-L", "dependency=" + deps, "--error-format=short", "--cap-lints", "allow"] + list(config[1])
    for k in ("truc_runtime", "static_assertions", "vtypes"):
        cmd += ["--extern", "%s=%s" % (k, rlibs[k])]
    cmd.append(path)
    return cmd


def run_probes(ctx, kind, quick, configs=(DEV,), binary=None, tag="", only_if_differs_from=None):
    """Emits the probes with the given generator build and compiles them. With
    `only_if_differs_from` (directory of another emission of the same probes), only the probes
    whose text differs from their twin there are compiled."""
    binary = binary or common.cargo_build("layoutmon", "fastdebug")
    d = os.path.join(common.WORK, "probes-%s-%s-%d%s" % (kind, ctx.tier, ctx.seed, tag))
    rc, out, err = common.sh([binary, "emit-probes", "--kind", kind, "--quick", "1" if quick else "0", "--seed", str(ctx.seed), "--out-dir", d], timeout=900)
    if rc != 0:
        raise Inconclusive("probe emitter failed: %s" % (err or "")[-500:])
    manifest = json.load(open(os.path.join(d, "manifest.json")))
    if only_if_differs_from:
        def text(dd, f):
            try:
                return open(os.path.join(dd, f)).read()
            except OSError:
                return None
        total = len(manifest)
        manifest = [m for m in manifest if text(d, m["file"]) != text(only_if_differs_from, m["file"])]
        ctx.count("probes_with_identical_text_from_the%s_generator" % tag.replace("-", "_"), total - len(manifest))
        if not manifest:
            return d, manifest, {}
    deps, rlibs = probe_deps()
    outdir = os.path.join(d, "out")
    os.makedirs(outdir, exist_ok=True)
    jobs = [((m["file"], c[0]), compile_probe(deps, rlibs, os.path.join(d, m["file"]), outdir, c), None, None) for m in manifest for c in configs]
    results = {}
    for (lab, rc, out, err, secs) in ctx.run_parallel(jobs, 600):
        results[lab if len(configs) > 1 else lab[0]] = (rc, err or "")
    shutil.rmtree(outdir, ignore_errors=True)
    return d, manifest, results


def codes(err):
    return sorted(set(re.findall(r"error\[(E\d+)\]", err)))


def run_c11(ctx):
    # every probe is compiled the way a dev build and the way a release build compiles the
    # crate that includes the generated module: the rejection must not depend on the profile
    d, manifest, results = run_probes(ctx, "c11", ctx.quick, configs=(DEV, RELEASE))
    c11_verdicts(ctx, d, manifest, results, "")
    ctx.subruns.append({"engine": "rustc --emit=metadata on generate() output", "probes": len(manifest), "dir": d,
                        "compiler_configurations": ["dev (debug assertions on)", "release (" + " ".join(RELEASE[1]) + ")"]})
    # the same probes from a release-built generator: those whose text differs are judged too
    d3, manifest3, results3 = run_probes(ctx, "c11", ctx.quick, configs=(DEV, RELEASE), binary=common.cargo_build("layoutmon", "release"),
                                         tag="-release-built", only_if_differs_from=d)
    if manifest3:
        c11_verdicts(ctx, d3, manifest3, results3, "generator built without debug assertions")
    # the same probes from a generator built with every cargo feature of truc switched on
    allf, feats = common.cargo_build_all_features("layoutmon", "fastdebug")
    if allf:
        d2, manifest2, results2 = run_probes(ctx, "c11", True, configs=(DEV, RELEASE), binary=allf, tag="-allfeatures")
        c11_verdicts(ctx, d2, manifest2, results2, "generator built with the cargo features %s of truc" % ", ".join(feats))
        ctx.subruns.append({"engine": "rustc --emit=metadata on generate() output", "probes": len(manifest2), "dir": d2,
                            "generator_built_with_truc_features": feats})


def c11_verdicts(ctx, d, manifest, results, variant):
    # controls first: a cell whose control does not compile decides nothing
    bad_controls = 0
    for m, config in [(m, c[0]) for m in manifest for c in (DEV, RELEASE)]:
        rc, err = results.get((m["file"], config), (None, ""))
        if config != "dev":
            m = dict(m)
            m["description"] = "%s [compiled with %s]" % (m["description"], " ".join(RELEASE[1]))
            m["signature"] = m["signature"] + " [release]"
        if variant:
            m = dict(m)
            m["description"] = "%s [%s]" % (m["description"], variant)
            m["signature"] = m["signature"] + " [all features]"
        ctx.evaluations += 1
        if rc is None:
            ctx.inconclusive.append("probe %s timed out" % m["file"])
            continue
        if m["expect_compile"]:
            ctx.count("controls_compiled" if rc == 0 else "controls_rejected", 1)
            if rc != 0:
                bad_controls += 1
                if bad_controls <= 3:
                    ctx.inconclusive.append("control does not compile (%s): %s" % (m["description"], err.strip().splitlines()[:2]))
            continue
        if config == "dev" and not variant:
            ctx.distinct += 1
        c = codes(err)
        if rc == 0:
            ctx.count("perturbed_probes_that_compiled", 1)
            ctx.violation("wrong-type-information-compiled", "%s: the generated module compiles" % m["description"], m["signature"],
                          {"probe": os.path.join(d, m["file"]), "description": m["description"],
                           "cmd": "rustc --edition 2021 --crate-type lib --emit=metadata %s(see runner/props_probe.py) %s" % ("" if config == "dev" else " ".join(RELEASE[1]) + " ", os.path.join(d, m["file"]))})
        elif "E0080" in c or "E0277" in c:
            ctx.count("perturbed_probes_rejected", 1)
            for code in c:
                ctx.count("rejections_by_code." + code, 1)
        else:
            ctx.count("perturbed_probes_rejected_for_another_reason", 1)
            ctx.inconclusive.append("probe rejected, but not by a size/alignment assertion or a Copy bound (%s): %s" % (m["description"], err.strip().splitlines()[:2]))
        if len(ctx.samples) < 6 and ctx.evaluations % 41 == 0:
            ctx.samples.append("%s -> %s %s" % (m["description"], "compiles" if rc == 0 else "rejected", c))


def run_c14(ctx):
    d, manifest, results = run_probes(ctx, "c14", True)
    for m in manifest:
        rc, err = results.get(m["file"], (None, ""))
        ctx.evaluations += 1
        if rc is None:
            ctx.inconclusive.append("probe %s timed out" % m["file"])
            continue
        c = codes(err)
        if m["expect_compile"]:
            ctx.count("converse_probes", 1)
            if rc != 0:
                if "E0277" in c and ("Send" in err or "Sync" in err or "cannot be sent" in err or "cannot be shared" in err):
                    ctx.violation("thread-safe-record-not-sendable-or-shareable", "%s: rejected although every field type has the trait: %s" % (m["description"], err.strip().splitlines()[:1]),
                                  m["signature"], {"probe": os.path.join(d, m["file"]), "description": m["description"]})
                else:
                    ctx.inconclusive.append("probe that must compile fails for another reason (%s): %s" % (m["description"], err.strip().splitlines()[:2]))
            else:
                ctx.count("converse_probes_compiled", 1)
        else:
            ctx.distinct += 1
            ctx.count("only_if_probes", 1)
            if rc == 0:
                ctx.violation("record-has-an-auto-trait-a-field-lacks", "%s: accepted by the compiler" % m["description"], m["signature"],
                              {"probe": os.path.join(d, m["file"]), "description": m["description"]})
            else:
                ctx.count("only_if_probes_rejected", 1)
        if len(ctx.samples) < 6 and ctx.evaluations % 13 == 0:
            ctx.samples.append("%s -> %s" % (m["description"], "compiles" if rc == 0 else "rejected %s" % c))
    ctx.subruns.append({"engine": "rustc --emit=metadata on generate() output + `fn requires<T: Send|Sync>()`", "probes": len(manifest), "dir": d})
    import props_gen
    props_gen.thread_half(ctx)


# ---- C17 -------------------------------------------------------------------------------------

BASE = ["u8", "u32", "i64", "usize", "f64", "bool", "char", "()", "String", "vtypes::Plain", "vtypes::nested::Gen<u8>",
        "vtypes::nested::deeper::Choice", "vtypes::option::Option<u8>", "vtypes::string::String", "vtypes::vec::Vec<u16>",
        "vtypes::boxed::Box<bool>", "vtypes::result::Result<u8, String>", "Box<str>"]
UNARY = ["Box<{}>", "Vec<{}>", "Option<{}>", "({},)", "[{}; 3]", "[{}; 0]", "Box<[{}]>", "vtypes::nested::Gen<{}>", "vtypes::option::Option<{}>",
         "vtypes::vec::Vec<{}>", "vtypes::boxed::Box<{}>"]
BINARY = ["Result<{}, {}>", "({}, {})", "vtypes::result::Result<{}, {}>"]
TERNARY = ["({}, {}, {})"]


def grammar(ctx):
    rnd = random.Random(ctx.seed * 7919 + 17)
    d0 = list(BASE)
    d1 = [u.format(t) for u in UNARY for t in d0] + [b.format(t, s) for b in BINARY for t in d0 for s in d0]
    types = d0 + d1
    pool1 = d0 + d1
    if ctx.quick:
        n2, n3 = 1200, 500
    else:
        # depth 2 complete for the unary constructors, sampled for the others
        types += [u.format(t) for u in UNARY for t in d1]
        n2, n3 = 6000, 8000
    def pick(pool):
        return pool[rnd.randrange(len(pool))]
    d2 = []
    for _ in range(n2):
        k = rnd.randrange(10)
        if k < 4:
            d2.append(pick(UNARY).format(pick(d1)))
        elif k < 8:
            d2.append(pick(BINARY).format(pick(pool1), pick(pool1)))
        else:
            d2.append(pick(TERNARY).format(pick(pool1), pick(d0), pick(pool1)))
    types += d2
    pool2 = pool1 + d2
    for _ in range(n3):
        k = rnd.randrange(10)
        if k < 5:
            t = pick(UNARY).format(pick(d2))
        elif k < 9:
            t = pick(BINARY).format(pick(pool2), pick(pool2))
        else:
            t = pick(TERNARY).format(pick(pool2), pick(pool2), pick(d0))
        if rnd.randrange(4) == 0:
            t = pick(UNARY).format(t)
        if len(t) < 400:
            types.append(t)
    seen = set()
    out = []
    for t in types:
        if t not in seen:
            seen.add(t)
            out.append(t)
    return out


def depth(t):
    d = m = 0
    for ch in t:
        if ch in "<([":
            d += 1
            m = max(m, d)
        elif ch in ">)]":
            d -= 1
    return m


CARGO_STAGE = """[package]
name = "{name}"
version = "0.1.0"
edition = "2021"

[workspace]

[dependencies]
vtypes = {{ path = "/verif/harness/vtypes" }}
{extra}
[profile.dev]
debug = 0
"""

STAGE1_HEAD = """// C17 stage 1: what name does truc record for each type, and how does a type table answer
// when the type is looked up under several spellings?
use truc::record::type_resolver::{HostTypeResolver, StaticTypeResolver, TypeInfo, TypeResolver};
fn esc(s: &str) -> String { s.replace('\\t', " ") }
fn p<T: 'static>(idx: usize, literal: &str) {
    let info = HostTypeResolver.type_info::<T>();
    let mut problems: Vec<String> = Vec::new();
    if info.size != std::mem::size_of::<T>() || info.align != std::mem::align_of::<T>() {
        problems.push(format!("host resolver answers {}/{}", info.size, info.align));
    }
    let mut table = StaticTypeResolver::new();
    table.add_type::<T>();
    let full = std::any::type_name::<T>().to_owned();
    let strip = |s: &str| s.chars().filter(|c| !c.is_whitespace()).collect::<String>();
    let spellings = [info.name.clone(), full.clone(), strip(&info.name), strip(&full), info.name.replace(' ', "  "), literal.to_owned(), strip(literal)];
    for s in spellings.iter() {
        match std::panic::catch_unwind(|| table.dynamic_type_info(s)) {
            Ok(d) => {
                let want = TypeInfo { name: info.name.clone(), size: info.size, align: info.align };
                if d.info != want || d.allow_uninit {
                    problems.push(format!("lookup {:?} answers {:?}", s, d));
                }
            }
            Err(_) => problems.push(format!("lookup {:?} fails", s)),
        }
    }
    match std::panic::catch_unwind(|| table.type_info::<T>()) {
        Ok(i) if i == info => {}
        _ => problems.push("typed lookup differs".to_owned()),
    }
    println!("{}\\t{}\\t{}\\t{}", idx, esc(literal), esc(&info.name), esc(&problems.join(" | ")));
}
fn main() {
    std::panic::set_hook(Box::new(|_| {}));
"""

STAGE2_HEAD = """// C17 stage 2: the recorded name, written in another crate, must denote the same type.
#![allow(unused_parens, unused_imports)]
use std::any::TypeId;
fn check<A: 'static + ?Sized, B: 'static + ?Sized>(idx: usize) {
    if TypeId::of::<A>() == TypeId::of::<B>() { println!("{}\\tsame", idx); } else { println!("{}\\tDIFFERENT\\t{}\\t{}", idx, std::any::type_name::<A>(), std::any::type_name::<B>()); }
}
fn main() {
"""


def write_crate(d, name, extra, main_text):
    os.makedirs(os.path.join(d, "src"), exist_ok=True)
    os.makedirs(os.path.join(d, ".cargo"), exist_ok=True)
    def put(path, text):
        if not os.path.exists(path) or open(path).read() != text:
            open(path, "w").write(text)
    put(os.path.join(d, "Cargo.toml"), CARGO_STAGE.format(name=name, extra=extra))
    put(os.path.join(d, ".cargo", "config.toml"), "[net]\noffline = true\n")
    put(os.path.join(d, "src", "main.rs"), main_text)
    if not os.path.exists(os.path.join(d, "Cargo.lock")):
        shutil.copy(os.path.join(common.HARNESS, "Cargo.lock"), os.path.join(d, "Cargo.lock"))


# types that optional dependencies of truc bring into its type tables, by cargo feature: what the
# grammar adds as leaves when truc is built with that feature (dependency line for the crates)
FEATURE_LEAVES = {"uuid": (["uuid::Uuid"], 'uuid = "1"\n')}


def run_c17(ctx):
    types = grammar(ctx)
    root = os.path.join(common.WORK, "tn-%s-%d" % (ctx.tier, ctx.seed))
    c17_pass(ctx, types, root, 'truc = { path = "/repo/truc" }\n', "", True)
    # truc built with every cargo feature it has: the types those features add are leaves of a
    # smaller grammar, next to a sample of the main one
    feats = common.truc_features()
    if feats:
        leaves, deps = [], ""
        for f in feats:
            if f in FEATURE_LEAVES:
                leaves += FEATURE_LEAVES[f][0]
                deps += FEATURE_LEAVES[f][1]
        rnd = random.Random(ctx.seed * 31 + 7)
        small = list(BASE) + leaves
        small += [u.format(t) for u in UNARY for t in leaves + BASE[:4]]
        small += [b.format(x, y) for b in BINARY for x in (leaves or BASE[:1]) for y in BASE[:3] + leaves]
        small += [u.format(v.format(t)) for u in UNARY[:6] for v in UNARY[:6] for t in leaves]
        small += rnd.sample(types, min(len(types), 150 if ctx.quick else 1500))
        seen = set()
        small = [t for t in small if not (t in seen or seen.add(t))]
        truc_dep = 'truc = { path = "/repo/truc", features = [%s] }\n' % ", ".join('"%s"' % f for f in feats)
        c17_pass(ctx, small, root + "-allfeatures", truc_dep + deps, deps, False)
        ctx.subruns.append({"engine": "the same two stages with truc built with its cargo features", "features": feats, "extra_leaf_types": leaves, "types": len(small)})


def c17_pass(ctx, types, root, stage1_deps, stage2_deps, main):
    chunk = 1500
    # the crates of all tiers, seeds and passes share one target directory (so that truc and its
    # dependencies are built once): their names must differ, or cargo runs the executable that
    # another crate of the same name left there
    uniq = re.sub(r"[^a-z0-9]", "_", os.path.basename(root).lower())
    chunks = [types[i:i + chunk] for i in range(0, len(types), chunk)]
    env = dict(common.ENV)
    env["CARGO_TARGET_DIR"] = os.path.join(common.WORK, "target-tn")
    # ---- stage 1 (links truc) ----
    recorded = {}
    jobs = []
    for ci, ch in enumerate(chunks):
        d = os.path.join(root, "s1_%d" % ci)
        body = "".join("    p::<%s>(%d, %s);\n" % (t, ci * chunk + i, json.dumps(t)) for i, t in enumerate(ch))
        write_crate(d, "%s_s1_%d" % (uniq, ci), stage1_deps, STAGE1_HEAD + body + "}\n")
        jobs.append(("s1_%d" % ci, ["cargo", "run", "--offline", "-q"], d, env))
    with common.Lock("tn-build"):
        res = ctx.run_parallel(jobs, 3600, max_workers=4)
    for (lab, rc, out, err, secs) in res:
        if rc != 0:
            raise Inconclusive("stage 1 crate %s failed (status %s): %s" % (lab, rc, "\n".join((err or "").splitlines()[-12:])))
        for line in out.splitlines():
            parts = line.split("\t")
            if len(parts) >= 4 and parts[0].isdigit():
                recorded[int(parts[0])] = (parts[1], parts[2], parts[3])
    if len(recorded) != len(types):
        ctx.inconclusive.append("stage 1 answered for %d of %d types" % (len(recorded), len(types)))
    for idx, (lit, name, problems) in sorted(recorded.items()):
        ctx.evaluations += 1
        if depth(lit) >= 2 and main:
            ctx.distinct += 1
        ctx.count("type_table_lookups", 7)
        if problems:
            ctx.violation("type-table-lookup", "type %s recorded as %r: %s" % (lit, name, problems), "C17 lookup %s" % lit, {"type": lit, "recorded": name, "problems": problems})
    # ---- stage 2 (does not link truc): recorded names compiled in another crate ----
    pending = dict(recorded)
    for attempt in range(6):
        jobs = []
        line_of = {}
        for ci in range(len(chunks)):
            d = os.path.join(root, "s2_%d" % ci)
            lines = []
            for idx in range(ci * chunk, min((ci + 1) * chunk, len(types))):
                if idx in pending:
                    lit, name, _ = pending[idx]
                    line_of[(ci, len(STAGE2_HEAD.splitlines()) + len(lines) + 1)] = idx
                    lines.append("    check::<%s, %s>(%d);\n" % (lit, name, idx))
            write_crate(d, "%s_s2_%d" % (uniq, ci), stage2_deps, STAGE2_HEAD + "".join(lines) + "}\n")
            jobs.append((ci, ["cargo", "run", "--offline", "-q"], d, env))
        with common.Lock("tn-build"):
            res = ctx.run_parallel(jobs, 3600, max_workers=4)
        failed = False
        for (ci, rc, out, err, secs) in res:
            if rc != 0:
                failed = True
                # names that do not even compile: isolate by line number and retry without them
                bad_lines = set(int(x) for x in re.findall(r"src/main\.rs:(\d+):", err or ""))
                hit = False
                for ln in bad_lines:
                    idx = line_of.get((ci, ln))
                    if idx is not None and idx in pending:
                        lit, name, _ = pending.pop(idx)
                        hit = True
                        first = [l for l in (err or "").splitlines() if "src/main.rs:%d:" % ln in l][:1]
                        ctx.violation("recorded-name-does-not-compile", "type %s is recorded as %r, which the compiler rejects elsewhere: %s" % (lit, name, first),
                                      "C17 name %s" % lit, {"type": lit, "recorded": name})
                if not hit:
                    raise Inconclusive("stage 2 crate %s failed for another reason: %s" % (ci, "\n".join((err or "").splitlines()[-12:])))
                continue
            for line in out.splitlines():
                parts = line.split("\t")
                if len(parts) >= 2 and parts[0].isdigit():
                    idx = int(parts[0])
                    ctx.count("names_compared_by_TypeId", 1)
                    if parts[1] != "same":
                        lit, name, _ = recorded[idx]
                        ctx.violation("recorded-name-denotes-another-type", "type %s is recorded as %r, which denotes %s" % (lit, name, parts[3] if len(parts) > 3 else "?"),
                                      "C17 name %s" % lit, {"type": lit, "recorded": name})
                    pending.pop(idx, None)
        if not failed:
            break
    if not main:
        return
    for t in types[:2] + types[len(BASE) + 40:len(BASE) + 42] + types[-3:]:
        ctx.samples.append(t)
    ctx.count("max_nesting_depth", max(depth(t) for t in types))
    ctx.subruns.append({"engine": "two generated crates per 1500 types: stage 1 links truc (recorded names, table lookups under 7 spellings), stage 2 compares TypeId of literal and recorded name",
                        "types": len(types)})


def replay(path):
    d = json.load(open(path))
    print(json.dumps({k: d[k] for k in d if k in ("description", "probe", "type", "recorded", "problems", "cmd")}, indent=1))
    return 0


CHECKS = {
    "C11": {"run": run_c11, "replay": replay, "level": "exploration",
            "assumptions": ["the observable is the compiler's verdict (stable toolchain of this image) on the generator's real output", "a probe rejected for a reason other than a size/alignment assertion or a Copy bound decides nothing (inconclusive)"],
            "rule": "probes = (palette type x first/later variant x alone/next to an unperturbed datum of the same type x perturbation of the recorded size (-1 unit, -1 byte, +1 unit) or alignment (/2, x2) or may-be-uninitialised on a non-Copy type) through add_datum_override and through a stale pre-computed table, each cell with an unperturbed control that must compile; non-trivial = perturbed probe (controls are not counted)"},
    "C14": {"run": run_c14, "replay": replay, "level": "exploration",
            "assumptions": ["expected auto traits of the field types are the standard library's (Rc: neither, Cell/RefCell/Receiver: Send only, MutexGuard: Sync only, raw pointer: neither)"],
            "rule": "probes = (9 modules x every variant x {Send, Sync} x {published capacity, +8}); expectation computed per variant from the field types it holds; non-trivial = probe where some field lacks the trait (the only-if direction); the remaining probes check the converse. Dynamic half: episodes of the engine-B drivers (all field types Send + Sync) in which records are read by three threads at once through a shared reference and moved to another thread and back, natively and under Miri's data race detector; non-trivial = the episode contains such an operation"},
    "C17": {"run": run_c17, "replay": replay, "level": "exploration",
            "assumptions": ["types are drawn from a grammar over primitives, String, Box, Vec, Option, Result, tuples, arrays, boxed slices and user-crate types (some of them named like the standard ones)", "TypeId equality is the oracle for 'denotes the same type'"],
            "rule": "types = complete grammar at depth <= 1 (thorough: unary constructors complete at depth 2) + seeded samples at depth 2-4; for each type: recorded name compiled in another crate and compared by TypeId, and a table holding the type looked up under 7 spellings; non-trivial = nesting depth >= 2"},
}
