CHECKS = {}
