"""Engine B properties: generated modules compiled by the real compiler and driven by generated
drivers (C04 C05 C06 C07 C15 C16, and the run-time halves of C02 C03 C13)."""
import hashlib
import json
import os
import re
import shutil

import common
from common import Inconclusive

GEN_PROPS = ("C02", "C03", "C04", "C05", "C06", "C07", "C11", "C13", "C15", "C16")


def crate_dir(ctx):
    return os.path.join(common.WORK, "gendrv-%s-%d" % (ctx.tier, ctx.seed))


def crate_name(ctx):
    """The emitter names the crate after its directory (one target directory per tier serves
    every seed: executables must not share a name)."""
    return re.sub(r"[^A-Za-z0-9]", "_", os.path.basename(crate_dir(ctx)))


def target_dir(ctx):
    return os.path.join(common.WORK, "target-gendrv-%s" % ctx.tier)


def emit_with(binary, what, d, ctx, exclude, reduced):
    count = 8 if ctx.quick else 48
    caps = "0,5" if ctx.quick else "0,1,8"
    cmd = [binary, "emit", "--seed", str(ctx.seed), "--count", str(count), "--out-dir", d, "--caps", caps]
    if exclude:
        cmd += ["--exclude", ",".join(sorted(exclude))]
    if reduced:
        cmd += ["--reduced", ",".join(sorted(reduced))]
    rc, out, err = common.sh(cmd, timeout=600)
    if rc != 0:
        raise Inconclusive("emitter (%s) failed: %s" % (what, (err or "")[-500:]))
    return json.load(open(os.path.join(d, "manifest.json")))


def emit(ctx, exclude=(), reduced=()):
    """Emits the generated-driver crate. The generator runs in three builds: with debug
    assertions and overflow checks (the crate), the way a release build builds a build script's
    dependencies, and with every cargo feature of truc switched on (sibling directories). Where
    another build of the generator writes a different text for a module, that text (and its
    driver) replaces the first one, so that it is the one compiled and executed; on a tree where
    all agree this changes nothing. When both differ, odd modules take the all-features text and
    even ones the release text."""
    d = crate_dir(ctx)
    builds = [("release-built generator", common.cargo_build("layoutmon", "release"), "release")]
    allf, feats = common.cargo_build_all_features("layoutmon", "fastdebug")
    if allf:
        builds.append(("generator built with the cargo features %s of truc" % ", ".join(feats), allf, "all_features"))
    base = common.cargo_build("layoutmon", "fastdebug")
    with common.Lock("gendrv-emit"):
        manifest = emit_with(base, "debug-assertions build", d, ctx, exclude, reduced)
        status = {m["module"]: m["status"] for m in manifest["modules"]}
        original = {}
        replaced = set()
        for what, binary, key in builds:
            d2 = d + "-" + key
            manifest2 = emit_with(binary, what, d2, ctx, exclude, reduced)
            same = differ = 0
            for m in manifest2["modules"]:
                name = m["module"]
                if m["status"] != "emitted":
                    if status.get(name) == "emitted":
                        m2 = dict(m)
                        m2["status"] = "%s: %s" % (what, m["status"])
                        if not any(g["module"] == name and g["status"] == m2["status"] for g in ctx.gen_failures):
                            ctx.gen_failures.append(m2)
                    continue
                if status.get(name) != "emitted":
                    continue
                texts = {}
                changed = False
                for f in ("m%s.rs", "d%s.rs"):
                    a = os.path.join(d, "src", f % name[1:])
                    b = os.path.join(d2, "src", f % name[1:])
                    if not os.path.exists(b):
                        continue
                    if a not in original:
                        original[a] = open(a).read() if os.path.exists(a) else None
                    texts[a] = open(b).read()
                    if original[a] != texts[a]:
                        changed = True
                if changed:
                    differ += 1
                    if name not in replaced or int(name[1:]) % 2 == 1:
                        replaced.add(name)
                        for a, t in texts.items():
                            with open(a, "w") as fh:
                                fh.write(t)
                else:
                    same += 1
            ctx.counters["modules_with_identical_text_from_the_%s_generator" % key] = same
            if differ:
                ctx.counters["modules_whose_text_differs_from_the_%s_generator" % key] = differ
            shutil.rmtree(d2, ignore_errors=True)
    return d, manifest


def failing_modules(stderr):
    """Modules whose *generated* text (mK.rs) the compiler rejects, with the first error each."""
    bad = {}
    lines = (stderr or "").splitlines()
    last_err = ""
    for l in lines:
        if l.startswith("error"):
            last_err = l.strip()
        m = re.search(r"--> src/m(\d+)\.rs:(\d+)", l)
        if m and last_err:
            bad.setdefault("m" + m.group(1), "%s (src/m%s.rs:%s)" % (last_err, m.group(1), m.group(2)))
    return bad


def failing_drivers(stderr):
    """Modules whose *driver* (dK.rs) does not compile against the generated text: the
    generated interface is not the one the definition promises."""
    bad = {}
    last_err = ""
    for l in (stderr or "").splitlines():
        if l.startswith("error"):
            last_err = l.strip()
        m = re.search(r"--> src/d(\d+)\.rs:(\d+)", l)
        if m and last_err:
            bad.setdefault("m" + m.group(1), "%s (src/d%s.rs:%s)" % (last_err, m.group(1), m.group(2)))
    return bad


def build(ctx, d, profile, hooks, check_only=False, features=(), target=None):
    cmd = ["cargo", "check" if check_only else "build", "--offline"]
    if profile == "release":
        cmd.append("--release")
    feats = (["hooks"] if hooks else []) + list(features)
    if feats:
        cmd += ["--features", ",".join(feats)]
    env = dict(common.ENV)
    env["CARGO_TARGET_DIR"] = target or target_dir(ctx)
    with common.Lock("gendrv-build-%s" % ctx.tier):
        rc, out, err = common.sh(cmd, cwd=d, env=env, timeout=3600)
    return rc, err, os.path.join(target or target_dir(ctx), "release" if profile == "release" else "debug", crate_name(ctx))


def prepare(ctx, combos):
    """Emits the crate and builds the requested (profile, hooks) combinations. Modules whose
    generated text does not compile are reported (C13) and excluded so that the other
    properties can still be decided on the rest. Returns (dir, manifest, {combo: binary})."""
    exclude = {}
    reduced = {}
    ctx.interface_mismatch = {}
    for attempt in range(6):
        d, manifest = emit(ctx, exclude=exclude.keys(), reduced=reduced.keys())
        for m in manifest["modules"]:
            if m["status"] != "emitted" and not m["status"].startswith("excluded"):
                # the builder or the generator refused / panicked on a definition of the sample
                ctx.gen_failures.append(m)
        binaries = {}
        failed = None
        for (profile, hooks) in combos:
            rc, err, binary = build(ctx, d, profile, hooks)
            if rc != 0:
                failed = err
                break
            binaries[(profile, hooks)] = binary
        if failed is None:
            ctx.excluded_modules = exclude
            ctx.binaries = binaries
            return d, manifest, binaries
        bad = failing_modules(failed)
        badd = failing_drivers(failed)
        if not bad and not badd:
            tail = "\n".join((failed or "").splitlines()[-30:])
            raise Inconclusive("the generated-driver crate does not build and no generated module is to blame:\n%s" % tail)
        exclude.update(bad)
        for name, err in badd.items():
            if name in bad:
                continue
            if name not in reduced:
                # first retry without the returning conversion forms
                reduced[name] = err
            else:
                exclude[name] = "driver does not compile against the generated interface: " + err
            ctx.interface_mismatch[name] = err
    raise Inconclusive("generated-driver crate still failing after excluding %s" % sorted(exclude))


def absorb(ctx, rep, label, pid):
    ctx.merge_counters(rep.get("counters", {}), label + ".")
    ctx.add_distinct("episodes", label, rep.get("distinct", {}).get(pid, 0))
    ctx.evaluations += rep.get("counters", {}).get("episodes", 0)
    for s in rep.get("samples", []):
        if len(ctx.samples) < 6:
            ctx.samples.append("[%s] %s" % (label, s))
    ctx.functions_covered.update(rep.get("functions_covered", []))
    ctx.functions_total.update(rep.get("functions_total", {}))
    listed = 0
    for f in rep.get("findings", []):
        if f["property"] != pid:
            ctx.count("findings_of_other_properties_seen.%s" % f["property"], 1)
            continue
        listed += 1
        hist = ctx.module_history.get(f["module"], "")
        sig = "%s %s %s | %s" % (pid, f["kind"], re.sub(r"0x[0-9a-f]+|\d{3,}", "#", f["detail"])[:200], hist)
        ctx.violation(f["kind"], "[%s] %s | module %s cap %s episode %s | definition: %s" % (label, f["detail"], f["module"], f["cap"], f["episode"], hist),
                      sig, {"engine": "gendrv", "run": label, "module": f["module"], "cap": f["cap"], "episode": f["episode"], "ops": f["ops"], "definition": hist,
                            "replay_args": "--seed %d --replay %s:%s:%s" % (ctx.seed, f["module"], f["cap"], f["episode"]), "crate": crate_dir(ctx)})


def triage_crash(ctx, binary, label, module, cap, episode, ops, extra):
    """A driver built with optimisation died from a hardware fault. Before the generated code is
    blamed, the same episode (same seed, module, capacity, episode number, flags: the operations
    are a function of those) is replayed by the unoptimised driver with the hooks on and by the
    interpreter. If either sees anything, that is the violation and it is reported as such. If
    both run the episode to its end and every monitor stays silent, Rust semantics are
    respected on that execution and the fault is attributed to the optimised code generation of
    the toolchain, not to the property (see DESIGN 7, "optimised build dies, interpreter clean").
    Returns (cleared, text)."""
    key = (module, cap, episode)
    cache = ctx.__dict__.setdefault("triaged", {})
    if key in cache:
        return cache[key]
    if len(cache) >= 16:
        return (False, "too many crashes to triage in one run")
    d = crate_dir(ctx)
    replay = ["--seed", str(ctx.seed), "--replay", "%s:%s:%s" % (module, cap, episode), "--quiet-panics"] + [e for e in extra if e != "--drop-panics"]
    verdict = None
    dbg = getattr(ctx, "binaries", {}).get(("dev", True))
    if dbg is None or dbg == binary:
        verdict = (False, "no unoptimised hooks-on driver to compare with")
    else:
        rc, out, err = common.sh([dbg] + replay, timeout=900)
        rep = common.parse_json_tail(out)
        if rc != 0 or rep is None:
            verdict = (False, "the unoptimised hooks-on driver fails on the same episode too (status %s)" % rc)
        elif rep.get("findings"):
            verdict = (False, "the unoptimised hooks-on driver reports %s on the same episode" % [f["kind"] for f in rep["findings"]][:3])
    if verdict is None:
        serde_ops = any(o.startswith(("Ser", "De", "Expected")) for o in ops)
        env = dict(common.ENV)
        env["MIRIFLAGS"] = "" if serde_ops else SB
        env["CARGO_TARGET_DIR"] = target_dir(ctx)
        with common.Lock("gendrv-build-%s" % ctx.tier):
            rc, out, err = common.sh(["cargo", "+nightly", "miri", "run", "--offline", "-q", "--", "--episodes", "0", "--modules", "none"], cwd=d, env=env, timeout=3600)
        if rc != 0:
            verdict = (False, "the interpreter build failed, nothing to compare with")
        else:
            rc, out, err = common.sh(["cargo", "+nightly", "miri", "run", "--offline", "-q", "--"] + replay, cwd=d, env=env, timeout=3600)
            finding = common.classify_miri(err)
            rep = common.parse_json_tail(out)
            if rc is None:
                verdict = (False, "the interpreter timed out on the same episode")
            elif finding and finding[0] != "unsupported":
                verdict = (False, "the interpreter reports on the same episode: %s | %s" % (finding[1], finding[2]))
            elif rc != 0 or rep is None:
                verdict = (False, "the interpreter did not finish the same episode (status %s)" % rc)
            elif rep.get("findings"):
                verdict = (False, "the monitors report %s on the same episode under the interpreter" % [f["kind"] for f in rep["findings"]][:3])
            else:
                verdict = (True, "episode %s of %s at capacity %s: unoptimised hooks-on driver clean, interpreter (%s) clean, %d field values compared there"
                           % (episode, module, cap, "Stacked Borrows" + ("" if serde_ops else " + symbolic alignment check"), rep.get("counters", {}).get("field_values_compared", 0)))
    cache[key] = verdict
    return verdict


def run_native(ctx, binary, label, pid, episodes, max_ops, nshards=12, extra=()):
    jobs = []
    for s in range(nshards):
        jobs.append(("%s-%d" % (label, s), [binary, "--seed", str(ctx.seed), "--episodes", str(episodes), "--max-ops", str(max_ops),
                                          "--shard", str(s), "--nshards", str(nshards), "--quiet-panics"] + list(extra), None, None))
    results = ctx.run_parallel(jobs, 3600)
    # optimised builds only: hardware faults that the unoptimised driver and the interpreter
    # do not reproduce on the same episode are set aside (module skipped, shard re-run)
    skip = []
    for round_ in range(4):
        if "release" not in label:
            break
        again = []
        for (lab, rc, out, err, secs) in results:
            if rc in (-11, -7, -4) and "misaligned pointer dereference" not in (err or ""):
                cmd = [j for j in jobs if j[0] == lab][0][1] + (["--skip-modules", ",".join(skip)] if skip else [])
                rc2, out2, err2 = common.sh(cmd + ["--trace"], timeout=1800)
                if rc2 not in (-11, -7, -4):
                    # does not die any more once the modules set aside so far are left out
                    if skip:
                        again.append(lab)
                    continue
                trace = [l for l in (err2 or "").splitlines() if l.startswith("TRACE ")]
                m = re.match(r"TRACE (\S+) cap (\d+) episode (\d+):", trace[-1]) if trace else None
                if m and m.group(1) not in skip:
                    last_ep = trace[-1].split(":")[0]
                    ops = [l.split(": ", 1)[1] for l in trace if l.startswith(last_ep + ":")]
                    cleared, text = triage_crash(ctx, binary, label, m.group(1), int(m.group(2)), int(m.group(3)), ops, extra)
                    if cleared:
                        skip.append(m.group(1))
                        ctx.__dict__.setdefault("cleared_modules", set()).add(m.group(1))
                        ctx.count("optimised_driver_faults_not_reproduced_by_the_unoptimised_driver_and_the_interpreter", 1)
                        note = "[%s] the optimised driver died with status %s; %s -> attributed to the toolchain's code generation, module left out of this binary's run" % (lab, rc, text)
                        if note not in ctx.notes:
                            ctx.notes.append(note)
                    else:
                        ctx.triage_text = text
                if m and m.group(1) in skip:
                    again.append(lab)
        if not again:
            break
        redo = [(j[0], j[1] + ["--skip-modules", ",".join(skip)], j[2], j[3]) for j in jobs if j[0] in again]
        new = {r[0]: r for r in ctx.run_parallel(redo, 3600)}
        results = [new.get(r[0], r) for r in results]
        jobs = [(j[0], j[1] + ["--skip-modules", ",".join(skip)], j[2], j[3]) if j[0] in again else j for j in jobs]
    for (lab, rc, out, err, secs) in results:
        rep = common.parse_json_tail(out)
        if rc is None:
            ctx.inconclusive.append("driver run %s timed out" % lab)
        elif rc != 0 or rep is None:
            # the drivers never abort by themselves; the recognised aborts are events
            text = (err or "")[-1500:]
            hook = [l for l in (err or "").splitlines() if l.startswith("VERIF-HOOK-EVENT")][-3:]
            if "misaligned pointer dereference" in text:
                for p in ("C07", "C02"):
                    if pid == p:
                        ctx.violation("misaligned-pointer-dereference", "[%s] the debug build aborted: misaligned pointer dereference; last hook events: %s" % (lab, hook),
                                      "%s misaligned-pointer-dereference %s" % (pid, " ".join(hook[-1:])[:200]), {"stderr": text, "cmd": " ".join(jobs[0][1])})
                if pid not in ("C07", "C02"):
                    ctx.inconclusive.append("driver run %s aborted (misaligned pointer dereference: a C07 event)" % lab)
            else:
                # which operations did the episode that crashed contain? (re-run with --trace)
                cmd = [j for j in jobs if j[0] == lab][0][1]
                rc2, out2, err2 = common.sh(cmd + ["--trace"], timeout=1800)
                trace = [l for l in (err2 or "").splitlines() if l.startswith("TRACE ")]
                last_ep = trace[-1].split(":")[0] if trace else ""
                ops = [l.split(": ", 1)[1] for l in trace if l.startswith(last_ep + ":") and "ReadAll" not in l][-30:] if trace else []
                props = {"C04", "C05", "C06", "C07"}
                if any(o.startswith("Clone") for o in ops):
                    props.add("C16")
                if any(o.startswith(("Ser", "De", "Expected")) for o in ops):
                    props.add("C15")
                if pid in props:
                    ctx.violation("driver-crashed", "[%s] the driver died with status %s in %s; operations of that episode: %s; last hook events: %s; stderr tail: %s%s" % (lab, rc, last_ep[6:], ops[-8:], hook, text[-300:], ("; " + ctx.triage_text) if getattr(ctx, "triage_text", None) else ""),
                                  "%s driver-crashed %s %s" % (pid, label, " ".join(h.split(" addr=")[0] for h in hook[-1:])[:160]), {"stderr": text, "cmd": " ".join(cmd), "ops": ops})
                else:
                    ctx.inconclusive.append("driver run %s died with status %s" % (lab, rc))
        else:
            absorb(ctx, rep, label, pid)


def run_miri(ctx, d, label, pid, flags, episodes, max_ops, modules, nshards=16, extra=(), features=(), target=None, mine_all=False):
    env = dict(common.ENV)
    env["MIRIFLAGS"] = flags
    env["CARGO_TARGET_DIR"] = target or target_dir(ctx)
    feat = (["--features", ",".join(features)] if features else [])
    with common.Lock("gendrv-build-%s" % ctx.tier):
        rc, out, err = common.sh(["cargo", "+nightly", "miri", "run", "--offline", "-q"] + feat + ["--", "--episodes", "0", "--modules", "none"], cwd=d, env=env, timeout=3600)
    if rc != 0:
        raise Inconclusive("Miri build of the generated-driver crate failed: %s" % "\n".join((err or "").splitlines()[-15:]))
    jobs = []
    for s in range(nshards):
        args = ["--seed", str(ctx.seed), "--episodes", str(episodes), "--max-ops", str(max_ops), "--shard", str(s), "--nshards", str(nshards),
                "--quiet-panics", "--readback-every", "2"] + list(extra)
        if modules:
            args += ["--modules", ",".join(modules)]
        jobs.append((" ".join(args), ["cargo", "+nightly", "miri", "run", "--offline", "-q"] + feat + ["--"] + args, d, env))
    clean = 0
    for (lab, rc, out, err, secs) in ctx.run_parallel(jobs, 5400):
        finding = common.classify_miri(err)
        rep = common.parse_json_tail(out)
        if rc is None:
            ctx.inconclusive.append("Miri run `%s` timed out" % lab)
            continue
        if finding and finding[0] != "unsupported":
            kind, line, frame = finding
            # what Miri reports is memory safety of generated code + runtime: C07; leaks and
            # double frees are C06 matters as well
            mine = mine_all or pid == "C07" or (pid == "C06" and (kind == "leak" or "free" in line or "dangling" in line)) or (pid in ("C15", "C16") and label.endswith(pid))
            if mine:
                ctx.violation("miri-" + kind, "[%s] %s | %s | run: %s" % (label, line, frame, lab),
                              "%s miri %s %s" % (pid, common.norm_miri(line)[:160], re.sub(r":\d+:\d+", "", frame)[:160]),
                              {"cmd": "cd %s && MIRIFLAGS='%s' cargo +nightly miri run -- %s" % (d, flags, lab), "stderr": (err or "")[-4000:]})
            else:
                ctx.inconclusive.append("Miri reported `%s` (a C07 matter) in run `%s`" % (line[:120], lab))
            continue
        if rc != 0 or rep is None:
            ctx.inconclusive.append("Miri run `%s` ended with status %s without a report: %s" % (lab, rc, (err or "")[-300:]))
            continue
        clean += 1
        absorb(ctx, rep, label, pid)
    ctx.count(label + ".processes_clean", clean)
    ctx.subruns.append({"engine": "gendrv", "interpreter": "Miri " + flags, "processes": nshards, "episodes_per_module_and_capacity": episodes,
                        "max_operations_per_episode": max_ops, "modules": modules or "all"})


def run_asan(ctx, d, label, pid, episodes, max_ops, release=False):
    """AddressSanitizer + LeakSanitizer build of the hooks-off driver (nightly, -Zsanitizer)."""
    env = dict(common.ENV)
    env["RUSTFLAGS"] = "-Zsanitizer=address -Cforce-frame-pointers=yes"
    env["CARGO_TARGET_DIR"] = os.path.join(common.WORK, "target-gendrv-asan-%s" % ctx.tier)
    cmd = ["cargo", "+nightly", "build", "--offline", "--target", "x86_64-unknown-linux-gnu"] + (["--release"] if release else [])
    with common.Lock("gendrv-build-asan-%s" % ctx.tier):
        rc, out, err = common.sh(cmd, cwd=d, env=env, timeout=3600)
    if rc != 0:
        ctx.inconclusive.append("AddressSanitizer build failed: %s" % "\n".join((err or "").splitlines()[-8:]))
        return
    binary = os.path.join(env["CARGO_TARGET_DIR"], "x86_64-unknown-linux-gnu", "release" if release else "debug", crate_name(ctx))
    renv = dict(common.ENV)
    renv["ASAN_OPTIONS"] = "detect_leaks=1:halt_on_error=1:detect_stack_use_after_return=1"
    nsh = 12
    jobs = [("asan-%d" % s, [binary, "--seed", str(ctx.seed), "--episodes", str(episodes), "--max-ops", str(max_ops), "--shard", str(s), "--nshards", str(nsh), "--quiet-panics"]
             + (skip_cleared(ctx) if release else []), None, renv)
            for s in range(nsh)]
    clean = 0
    for (lab, rc, out, err, secs) in ctx.run_parallel(jobs, 3600):
        rep = common.parse_json_tail(out)
        if rc is None:
            ctx.inconclusive.append("AddressSanitizer run %s timed out" % lab)
            continue
        m = re.search(r"ERROR: (AddressSanitizer|LeakSanitizer): ([^\n]*)", err or "")
        if m:
            what = m.group(2).split(" on address")[0].split(" at pc")[0][:80]
            frames = [l.strip() for l in (err or "").splitlines() if re.match(r"\s*#\d+ ", l) and ("/repo/" in l or "/src/m" in l or re.search(r"gendrv\w*::m", l))][:2]
            leak = m.group(1) == "LeakSanitizer" or "double-free" in what or "attempting free" in what
            if pid == "C07" or (pid == "C06" and leak):
                ctx.violation("asan", "[%s] %s: %s | %s | run %s" % (label, m.group(1), what, " <- ".join(f[:160] for f in frames), lab),
                              "%s asan %s %s" % (pid, what, re.sub(r"0x[0-9a-f]+|:\d+", "", " ".join(frames))[:200]),
                              {"stderr": (err or "")[:6000], "cmd": " ".join(jobs[0][1]), "env": renv["ASAN_OPTIONS"]})
            else:
                ctx.inconclusive.append("AddressSanitizer reported `%s` (a C07 matter) in %s" % (what, lab))
            continue
        if rc != 0 or rep is None:
            ctx.inconclusive.append("AddressSanitizer run %s ended with status %s without a sanitizer report: %s" % (lab, rc, (err or "")[-200:]))
            continue
        clean += 1
        absorb(ctx, rep, label, pid)
    ctx.count(label + ".processes_clean", clean)
    ctx.subruns.append({"engine": "gendrv", "sanitizer": "AddressSanitizer + LeakSanitizer (nightly -Zsanitizer=address, hooks off, %s)" % ("release" if release else "debug"),
                        "episodes_per_module_and_capacity": episodes, "processes": nsh})


def skip_cleared(ctx):
    """Modules set aside by the crash triage of the optimised native run (same machine code)."""
    cleared = sorted(getattr(ctx, "cleared_modules", set()))
    return ["--skip-modules", ",".join(cleared)] if cleared else []


def run_valgrind(ctx, binary, label, pid, episodes, max_ops):
    jobs = []
    nsh = 8
    for s in range(nsh):
        jobs.append(("vg-%d" % s, ["valgrind", "-q", "--error-exitcode=9", "--leak-check=full", "--errors-for-leak-kinds=definite,indirect", binary,
                                   "--seed", str(ctx.seed), "--episodes", str(episodes), "--max-ops", str(max_ops), "--shard", str(s), "--nshards", str(nsh), "--quiet-panics"]
                     + skip_cleared(ctx), None, None))
    clean = 0
    for (lab, rc, out, err, secs) in ctx.run_parallel(jobs, 5400):
        rep = common.parse_json_tail(out)
        if rc is None:
            ctx.inconclusive.append("valgrind run %s timed out" % lab)
        elif rc == 9 or "== Invalid" in (err or "") or "definitely lost" in (err or ""):
            first = [l for l in (err or "").splitlines() if "Invalid" in l or "lost" in l or "free" in l][:1]
            if pid in ("C06", "C07"):
                ctx.violation("memcheck", "[%s] %s" % (label, first[0] if first else "memcheck error"), "%s memcheck %s" % (pid, (first[0] if first else "")[12:140]),
                              {"stderr": (err or "")[-4000:], "cmd": " ".join(jobs[0][1])})
            else:
                ctx.inconclusive.append("memcheck reported an error (C06/C07 matter) in %s" % lab)
        elif rc != 0 or rep is None:
            ctx.inconclusive.append("valgrind run %s ended with status %s" % (lab, rc))
        else:
            clean += 1
            absorb(ctx, rep, label, pid)
    ctx.count(label + ".processes_clean", clean)
    ctx.subruns.append({"engine": "gendrv", "sanitizer": "valgrind memcheck --leak-check=full on the release hooks-off driver", "episodes_per_module_and_capacity": episodes})


def init(ctx):
    ctx.gen_failures = []
    ctx.functions_covered = set()
    ctx.functions_total = {}
    ctx.module_history = {}
    ctx.excluded_modules = {}


def after_prepare(ctx, manifest, pid):
    for m in manifest["modules"]:
        ctx.module_history[m["module"]] = m["history"]
    emitted = [m for m in manifest["modules"] if m["status"] == "emitted"]
    ctx.count("generated_modules", len(emitted))
    ctx.count("generated_lines", sum(m.get("lines", 0) for m in emitted))
    ctx.count("generated_variants", sum(m.get("variants", 0) for m in emitted))
    if pid == "C13":
        for name, err in ctx.excluded_modules.items():
            hist = ctx.module_history.get(name, "")
            ctx.violation("generated-module-does-not-compile", "%s: %s | definition: %s" % (name, err, hist),
                          "C13 compile %s | %s" % (re.sub(r"\d+", "#", err)[:160], hist), {"module": name, "definition": hist, "crate": crate_dir(ctx)})
        for m in ctx.gen_failures:
            ctx.violation("definition-not-generated", "%s: %s | definition: %s" % (m["module"], m["status"], m["history"]),
                          "C13 %s | %s" % (m["status"][:80], m["history"]), {"definition": m["history"]})
    elif ctx.excluded_modules:
        ctx.count("modules_excluded_because_they_do_not_compile", len(ctx.excluded_modules))
    for m in manifest["modules"]:
        for mm in m.get("interface_mismatch", []):
            returning = "In" in mm.split(":")[0] or "AndUnpackedOut" in mm
            if (pid == "C05" and returning) or (pid == "C04" and not returning):
                ctx.violation("generated-interface-differs-from-definition", "%s: %s | definition: %s" % (m["module"], mm, m["history"]),
                              "%s interface %s | %s" % (pid, re.sub(r"\d+", "#", mm)[:200], m["history"]), {"module": m["module"], "definition": m["history"], "crate": crate_dir(ctx)})
    if pid in ("C04", "C05") and getattr(ctx, "interface_mismatch", None):
        # the driver is derived from the definition: when it does not compile against the
        # generated text, the generated interface does not offer what the definition promises
        for name, err in ctx.interface_mismatch.items():
            returning = "AndUnpackedOut" in err or "no field" in err or "pattern" in err
            if (pid == "C05") == bool(returning):
                hist = ctx.module_history.get(name, "")
                ctx.violation("generated-interface-differs-from-definition", "%s: %s | definition: %s" % (name, err, hist),
                              "%s interface %s | %s" % (pid, re.sub(r"\d+", "#", err)[:160], hist), {"module": name, "definition": hist, "crate": crate_dir(ctx)})


def standard_native(ctx, pid, binaries):
    episodes = 300 if ctx.quick else 4000
    max_ops = 40
    for (profile, hooks), binary in binaries.items():
        label = "native-%s-hooks-%s" % (profile, "on" if hooks else "off")
        run_native(ctx, binary, label, pid, episodes, max_ops, extra=["--drop-panics"] if pid in ("C06", "C07") else [])
        ctx.subruns.append({"engine": "gendrv", "build": label, "episodes_per_module_and_capacity": episodes, "max_operations_per_episode": max_ops})


def combos(ctx):
    if ctx.quick:
        return [("dev", True), ("release", False)]
    return [("dev", True), ("release", False), ("dev", False), ("release", True)]


def finish_coverage(ctx, manifest):
    ctx.count("generated_functions_executed", len(ctx.functions_covered))
    ctx.count("generated_functions_in_the_sample", sum(ctx.functions_total.values()))


def miri_modules(manifest, n):
    emitted = [m["module"] for m in manifest["modules"] if m["status"] == "emitted"]
    return emitted[:n]


SB = "-Zmiri-symbolic-alignment-check"
TB = "-Zmiri-symbolic-alignment-check -Zmiri-tree-borrows"


def run_generic(ctx):
    """C04 C05 C06 C16: model / ledger / hook monitors over native builds; interpreters and
    memcheck in the thorough tier (C06 has a Miri slice in the quick tier too: leak checker)."""
    pid = ctx.pid
    init(ctx)
    d, manifest, binaries = prepare(ctx, combos(ctx))
    after_prepare(ctx, manifest, pid)
    standard_native(ctx, pid, binaries)
    if pid == "C06":
        run_asan(ctx, d, "asan-debug", pid, 100 if ctx.quick else 1500, 40)
    if not ctx.quick:
        run_miri(ctx, d, "miri-sb", pid, SB, 6, 30, miri_modules(manifest, 40), extra=["--no-serde", "--caps", "0"])
        if pid in ("C06",):
            run_valgrind(ctx, binaries[("release", False)], "memcheck", pid, 150, 40)
    finish_coverage(ctx, manifest)


def run_c07(ctx):
    pid = "C07"
    init(ctx)
    d, manifest, binaries = prepare(ctx, combos(ctx))
    after_prepare(ctx, manifest, pid)
    standard_native(ctx, pid, binaries)
    run_asan(ctx, d, "asan-debug", pid, 100 if ctx.quick else 1500, 40)
    if ctx.quick:
        run_miri(ctx, d, "miri-sb", pid, SB, 6, 25, miri_modules(manifest, 24), extra=["--no-serde", "--caps", "0"])
    else:
        run_asan(ctx, d, "asan-release", pid, 1500, 40, release=True)
        run_miri(ctx, d, "miri-sb", pid, SB, 10, 40, None, extra=["--no-serde", "--caps", "0"])
        run_miri(ctx, d, "miri-sb-larger-capacities", pid, SB, 4, 30, miri_modules(manifest, 24), extra=["--no-serde", "--no-sweeps", "--caps", "1,8"])
        run_miri(ctx, d, "miri-tb", pid, TB, 6, 30, miri_modules(manifest, 40), extra=["--no-serde", "--caps", "0"])
        run_miri(ctx, d, "miri-serde", pid, "", 4, 30, [m["module"] for m in manifest["modules"] if m["status"] == "emitted" and "serde" in m.get("fragments", "")][:24], extra=["--caps", "0"])
        run_valgrind(ctx, binaries[("release", False)], "memcheck", pid, 150, 40)
    total = 0
    finish_coverage(ctx, manifest)


def run_c15(ctx):
    pid = "C15"
    init(ctx)
    d, manifest, binaries = prepare(ctx, combos(ctx))
    after_prepare(ctx, manifest, pid)
    standard_native(ctx, pid, binaries)
    if not ctx.quick:
        serde_mods = [m["module"] for m in manifest["modules"] if m["status"] == "emitted" and "serde" in m.get("fragments", "")]
        run_miri(ctx, d, "miri-C15", pid, "", 5, 30, serde_mods[:16], extra=["--caps", "0"])
    finish_coverage(ctx, manifest)


def thread_half(ctx):
    """Dynamic half of C14: records whose fields are all Send + Sync are shared by reference
    between three threads and moved to another thread and back, natively and under Miri's data
    race detector. The drivers are built with their `threads` feature for this."""
    pid = "C14"
    init(ctx)
    d, manifest = emit(ctx)
    after_prepare(ctx, manifest, pid)
    tdir = os.path.join(common.WORK, "target-gendrv-threads-%s" % ctx.tier)
    rc, err, binary = build(ctx, d, "dev", False, features=["threads"], target=tdir)
    if rc != 0:
        auto = [l for l in (err or "").splitlines() if "cannot be sent between threads" in l or "cannot be shared between threads" in l]
        if auto:
            ctx.violation("thread-safe-record-not-sendable-or-shareable", "the generated drivers, whose records hold only Send + Sync fields, do not compile with thread sharing enabled: %s" % auto[:2],
                          "C14 converse drivers %s" % re.sub(r"\d+", "#", auto[0])[:160], {"stderr": (err or "")[-3000:], "crate": d})
        else:
            ctx.inconclusive.append("the thread-sharing build of the generated drivers failed for another reason: %s" % "\n".join((err or "").splitlines()[-8:]))
        return
    run_native(ctx, binary, "native-threads", pid, 100 if ctx.quick else 1500, 40, extra=["--threads"])
    run_miri(ctx, d, "miri-threads", pid, SB, 3 if ctx.quick else 8, 25, miri_modules(manifest, 16 if ctx.quick else 40), extra=["--threads", "--no-serde", "--no-sweeps", "--caps", "0"],
             features=["threads"], target=tdir, mine_all=True)
    ctx.subruns.append({"engine": "gendrv with the `threads` feature", "operations": "3 threads read a shared record at once; a record is moved to another thread, read there and moved back",
                        "oracles": ["field -> id model in every thread", "Miri data race detector", "ledger"]})


def runtime_half(ctx, pid):
    """Run-time half of C02 / C03 on generated modules."""
    init(ctx)
    d, manifest, binaries = prepare(ctx, [("dev", True), ("release", False)] if ctx.quick else combos(ctx))
    after_prepare(ctx, manifest, pid)
    standard_native(ctx, pid, binaries)
    finish_coverage(ctx, manifest)


def compile_half(ctx):
    """Compile half of C13: every sampled definition with its fragment selection is compiled
    (debug + release builds of the driver crate), and every definition is additionally
    type-checked with each of the four fragment selections."""
    init(ctx)
    d, manifest, binaries = prepare(ctx, [("dev", True), ("release", False)])
    after_prepare(ctx, manifest, "C13")
    # all fragment selections, type-check only
    binary = common.cargo_build("layoutmon", "fastdebug")
    d2 = os.path.join(common.WORK, "gencheck-%s-%d" % (ctx.tier, ctx.seed))
    with common.Lock("gendrv-emit"):
        rc, out, err = common.sh([binary, "emit", "--seed", str(ctx.seed), "--count", "8" if ctx.quick else "48", "--out-dir", d2, "--all-fragsets", "1"], timeout=900)
    if rc != 0:
        raise Inconclusive("emitter (all fragment selections) failed: %s" % (err or "")[-400:])
    m2 = json.load(open(os.path.join(d2, "manifest.json")))
    env = dict(common.ENV)
    env["CARGO_TARGET_DIR"] = target_dir(ctx)
    with common.Lock("gendrv-build-%s" % ctx.tier):
        rc, out, err = common.sh(["cargo", "check", "--offline"], cwd=d2, env=env, timeout=3600)
    hist = {m["module"]: (m["history"], m.get("fragments")) for m in m2["modules"]}
    checked = len([m for m in m2["modules"] if m["status"] == "emitted"])
    ctx.count("modules_type_checked_with_every_fragment_selection", checked)
    ctx.evaluations += checked
    ctx.add_distinct("modules type-checked", "cargo check", checked)
    for m in m2["modules"]:
        if m["status"] != "emitted":
            ctx.violation("definition-not-generated", "%s: %s | definition: %s" % (m["module"], m["status"], m["history"]),
                          "C13 %s | %s" % (m["status"][:80], m["history"]), {"definition": m["history"]})
    if rc != 0:
        bad = failing_modules(err)
        if not bad:
            raise Inconclusive("the type-check crate does not build and no generated module is to blame: %s" % "\n".join((err or "").splitlines()[-20:]))
        for name, e in bad.items():
            h, frag = hist.get(name, ("", ""))
            ctx.violation("generated-module-does-not-compile", "%s [%s]: %s | definition: %s" % (name, frag, e, h),
                          "C13 compile %s | %s | %s" % (re.sub(r"\d+", "#", e)[:160], frag, h), {"module": name, "fragments": frag, "definition": h, "crate": d2})
    ctx.subruns.append({"engine": "rustc (cargo check)", "modules": checked,
                        "fragment_selections": ["default", "clone", "serde", "clone+serde", "none (GeneratorConfig::new with an empty list)",
                                                "a user-supplied fragment alone", "default + a user-supplied fragment"]})


def replay(path):
    d = json.load(open(path))
    print("definition: %s" % d.get("definition"))
    for o in d.get("ops", []):
        print("  op: %s" % o)
    print("re-run the episode: (cd %s && cargo run --features hooks -- %s)" % (d.get("crate"), d.get("replay_args")))
    if d.get("crate") and d.get("replay_args") and os.path.isdir(d["crate"]):
        env = dict(common.ENV)
        env["CARGO_TARGET_DIR"] = os.path.join(common.WORK, "target-gendrv-" + d.get("tier", "quick"))
        rc, out, err = common.sh(["cargo", "run", "--offline", "-q", "--features", "hooks", "--"] + d["replay_args"].split() + ["--quiet-panics"], cwd=d["crate"], env=env, timeout=1800)
        rep = common.parse_json_tail(out)
        n = 0
        for f in (rep or {}).get("findings", []):
            if f["property"] == d["property"]:
                n += 1
                print("VIOLATION property=%s kind=%s %s" % (f["property"], f["kind"], f["detail"]))
        return 1 if n else 0
    return 0


ASSUME = ["the episode interpreter's reference model (field -> value id) and the ledger state the contract of the generated API correctly",
          "definitions are sampled: shape-directed ones plus seeded random ones over a 31-type palette; field names are f<n>-style identifiers",
          "integer-typed may-be-uninitialised fields are always written before any operation reads them (reading them unwritten is outside the properties); MaybeUninit<u64> fields exercise the stays-unwritten path",
          "Miri executes unoptimised MIR; optimised builds are covered by the model, the ledger, the hook and memcheck"]

RULE_B = ("cases = episodes: seeded operation sequences (construct in 4 forms, write, convert in 4 forms, unpack, drop, move between stack / Box / Vec / repr(C) slot placements, "
          "clone / clone_from / clone with injected panic, serialise / deserialise incl. malformed input, in-place conversion of a vector of records) on every variant of every sampled module, "
          "for the published capacity and larger ones, in debug and release builds with the hooks on and off; distinct by FNV-64 of (module, capacity, operation list); non-trivial = ")

CHECKS = {
    "C04": {"run": run_generic, "replay": replay, "level": "exploration", "assumptions": ASSUME,
            "rule": RULE_B + "the episode constructs a record and writes through a mutable accessor; every operation is followed by a read-back of every written field of every live record"},
    "C05": {"run": run_generic, "replay": replay, "level": "exploration", "assumptions": ASSUME,
            "rule": RULE_B + "the episode contains a conversion to the next variant or an in-place vector conversion (conversions whose removed and added fields share bytes are counted separately)"},
    "C06": {"run": run_generic, "replay": replay, "level": "exploration", "assumptions": ASSUME,
            "rule": RULE_B + "a droppable value was stored and the record then went through a conversion, an unpack or a drop; oracle = births/deaths ledger closed at the end of every episode + drop counters of zero-size values + hook shadow"},
    "C07": {"run": run_c07, "replay": replay, "level": "exploration", "assumptions": ASSUME,
            "rule": RULE_B + "at least 2 operations; oracles = Miri (symbolic alignment check, Stacked Borrows; Tree Borrows and memcheck in the thorough tier) on hooks-off drivers, the verif-hooks shadow (bounds, alignment of loads and references, type/ownership of droppable spans) on native debug and release drivers, the compiler's misaligned-pointer-dereference check in debug builds"},
    "C15": {"run": run_c15, "replay": replay, "level": "fault_enumeration", "assumptions": ASSUME,
            "rule": RULE_B + "the episode serialises a record (JSON text and bincode compared with a declaration-order model) and deserialises either its own encoding (from_str, from_value, bincode) or a malformed one; in addition a deterministic sweep per module and capacity enumerates, for every variant, every k-element prefix, an undecodable element at every position k, one extra element (text and Value) and every byte-truncation of the bincode form; rejected inputs must leave the ledger population unchanged"},
    "C16": {"run": run_generic, "replay": replay, "level": "exploration", "assumptions": ASSUME,
            "rule": RULE_B + "the episode clones a record (clone, clone_from, or a clone with a panic injected at the k-th instrumented field clone); in addition a deterministic sweep per module and capacity injects the panic at every clone point of every variant, for clone and for clone_from; source and copy are both read back after every later operation"},
}
