"""Engine B properties (generated modules + generated drivers): filled in below."""

CHECKS = {}


def runtime_half(ctx, pid):
    """Run-time half of C02 / C03 on generated modules (engine B)."""
    return


def compile_half(ctx):
    """Compile half of C13 (engine B build of sampled modules with every fragment selection)."""
    return
